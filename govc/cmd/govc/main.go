package main

import (
	"sync/atomic"
	"context"
	"encoding/json"
	"flag"
	"fmt"
	"go/types"
	"os"
	"path/filepath"
	"regexp"
	"runtime/debug"
	"sort"
	"strings"
	"sync"
	"time"

	"golang.org/x/tools/go/ssa"
)

type FuncResult struct {
	Fn       string
	Pkg      string
	Key      string
	Status   string // ok | unsupported | contract-error
	Err      string
	Obligs   []*Obligation
	Notes    []string
	Imprecise []string
	vc       *VC
	mu       sync.Mutex
	slicedMiss int
	Dep      bool // included because a function of the property calls it by contract
	calls    map[*ssa.Function]bool
}

func usage() {
	fmt.Fprintln(os.Stderr, "usage: govc check -prop Cxx [-tier quick|thorough] | govc dump pkg func | govc list")
	os.Exit(2)
}

func main() {
	if len(os.Args) < 2 {
		usage()
	}
	switch os.Args[1] {
	case "check":
		os.Exit(cmdCheck(os.Args[2:]))
	case "dump":
		cmdDump(os.Args[2:])
	case "list":
		cmdList(os.Args[2:])
	case "replay":
		os.Exit(cmdReplay(os.Args[2:]))
	default:
		usage()
	}
}

func verifRoot() string {
	if d := os.Getenv("VERIF_ROOT"); d != "" {
		return d
	}
	exe, err := os.Executable()
	if err == nil {
		d := filepath.Dir(filepath.Dir(exe))
		if _, err := os.Stat(filepath.Join(d, "properties.jsonl")); err == nil {
			return d
		}
	}
	return "/verif"
}

func repoRoot() string {
	if d := os.Getenv("VERIF_REPO"); d != "" {
		return d
	}
	return "/repo"
}

func cmdDump(args []string) {
	eng, err := loadEngine(repoRoot(), filepath.Join(verifRoot(), "spec"))
	if err != nil {
		fmt.Fprintln(os.Stderr, err)
		os.Exit(2)
	}
	re := regexp.MustCompile(args[0])
	for fn := range eng.allFuncs {
		if re.MatchString(eng.pkgPathOf(fn) + "::" + funcKey(fn)) {
			fn.WriteTo(os.Stdout)
		}
	}
}

func cmdList(args []string) {
	eng, err := loadEngine(repoRoot(), filepath.Join(verifRoot(), "spec"))
	if err != nil {
		fmt.Fprintln(os.Stderr, err)
		os.Exit(2)
	}
	var keys []string
	for k, c := range eng.contracts.byKey {
		keys = append(keys, fmt.Sprintf("%s props=%v clauses=%d", k, c.Props, len(c.Clauses)))
	}
	sort.Strings(keys)
	for _, k := range keys {
		fmt.Println(k)
	}
}

// verifyFunc builds the VC of one function under its contract.
var assumedMu sync.Mutex

func (eng *Engine) verifyFunc(fn *ssa.Function) (res *FuncResult) {
	name := shortPkg(eng.pkgPathOf(fn)) + "." + funcKey(fn)
	res = &FuncResult{Fn: name, Pkg: eng.pkgPathOf(fn), Key: funcKey(fn), Status: "ok"}
	vc := newVC(eng, name)
	res.vc = vc
	defer func() {
		if r := recover(); r != nil {
			switch e := r.(type) {
			case unsupported:
				res.Status = "unsupported"
				res.Err = e.Error()
			case specErr:
				res.Status = "contract-error"
				res.Err = e.Error()
			default:
				res.Status = "engine-error"
				res.Err = fmt.Sprintf("%v\n%s", r, debug.Stack())
			}
		}
		res.Obligs = vc.obligs
		res.Notes = vc.notes
		res.calls = vc.calledByContract
		for k := range vc.imprecise {
			res.Imprecise = append(res.Imprecise, k)
		}
	}()
	vc.deadline = time.Now().Add(90 * time.Second)
	st := newState()
	alloc0 := vc.get(st, "$alloc")
	vc.assume(sx("<", "1", alloc0))
	for _, g := range []string{"#outlen", "#wfails", "#evn", "#inpos", "#rdzero"} {
		vc.assume(sx("<=", "0", vc.get(st, g)))
	}
	vc.assume(sx("<=", vc.get(st, "#inpos"), vc.declare("#inlen@0", "Int")))
	var args []Val
	for i, p := range fn.Params {
		v := vc.freshVal("in."+p.Name(), p.Type())
		vc.assume(vc.wf(v, st))
		for _, c := range v.C {
			vc.inputs = append(vc.inputs, c)
		}
		args = append(args, v)
		// the receiver of a method is non-nil (a nil receiver is the caller's error)
		if i == 0 && fn.Signature.Recv() != nil {
			if _, isPtr := p.Type().Underlying().(*types.Pointer); isPtr {
				vc.assume(sx("<", "0", v.C[0]))
			}
		}
	}
	var fvs []Val
	for _, fv := range fn.FreeVars {
		v := vc.freshVal("fv."+fv.Name(), fv.Type())
		vc.assume(vc.wf(v, st))
		fvs = append(fvs, v)
	}
	c := eng.contractOf(fn)
	if c != nil {
		env := &SpecEnv{fr: &Frame{vc: vc, fn: fn}, fn: fn, params: map[string]Val{}, cur: st, old: st, bound: map[string]SVal{}, lets: map[string]SVal{}}
		for i, p := range fn.Params {
			env.params[p.Name()] = args[i]
		}
		env.evalLets(c, false)
		for _, cl := range c.byKind("requires") {
			vc.assume(env.boolOf(cl.Expr))
		}
		// assumes: an unproved representation invariant, assumed at entry of
		// the function under verification, never checked at call sites and
		// listed in the evidence as an unchecked assumption
		for _, cl := range c.byKind("assumes") {
			vc.assume(env.boolOf(cl.Expr))
			assumedMu.Lock()
			eng.assumedInv[shortPkg(eng.pkgPathOf(fn))+"."+funcKey(fn)+": "+cl.Label+" "+cl.Src] = true
			assumedMu.Unlock()
		}
		vc.topFn, vc.topContract = fn, c
		if decs := funcDecreases(c); len(decs) > 0 {
			vc.topVariant = vc.define("variant", "Int", env.intOf(decs[0].Expr))
		}
	}
	eng.assumeGlobalInvs(vc, fn, st)
	_, _, exit := vc.run(fn, args, fvs, st, "true", nil, "")
	// vacuity canary: some return must be reachable under all assumptions
	ob := &Obligation{Name: name + "#canary:exit-reachable", Kind: "canary", Fn: name, Site: "exit-reachable",
		Guard: "true", Cond: exit, nAsserts: len(vc.asserts), nDecls: len(vc.decls), MustFail: true, Aux: true}
	if c != nil {
		ob.Props = c.Props
	}
	vc.obligs = append(vc.obligs, ob)
	return res
}

func shortPkg(p string) string {
	if i := strings.LastIndex(p, "/"); i >= 0 {
		p = p[i+1:]
	}
	if p == "go-structform" {
		return "structform"
	}
	return p
}

func (eng *Engine) assumeGlobalInvs(vc *VC, fn *ssa.Function, st *State) {
	pkg := eng.pkgPathOf(fn)
	for _, gi := range eng.contracts.globals[pkg] {
		env := &SpecEnv{fr: &Frame{vc: vc, fn: fn}, fn: fn, params: map[string]Val{}, cur: st, old: st, bound: map[string]SVal{}, lets: map[string]SVal{}}
		vc.assume(env.boolOf(gi.Expr))
	}
}

// propParts: a property that is decided by composing the contracts of other
// properties selects their obligations as well.  C08 (transcoding preserves
// the value) = every parser reports the value its format assigns to the bytes
// (C04 C05 C06) + every encoder writes bytes denoting the event's value (C07)
// + event streams are well formed and extended events mean their expansion
// (C09 C10); the composition itself is a paper lemma (DESIGN.md).
var propParts = map[string][]string{
	"C08": {"C04", "C05", "C06", "C07", "C09", "C10"},
}

func hasProp(props []string, p string) bool {
	for _, x := range props {
		if x == p {
			return true
		}
		for _, part := range propParts[p] {
			if x == part {
				return true
			}
		}
	}
	return false
}

type KnownFinding struct {
	Property   string `json:"property"`
	Obligation string `json:"obligation"`
	What       string `json:"what"`
	Witness    string `json:"witness,omitempty"`
	Status     string `json:"status"` // open | fixed
	Commit     string `json:"commit,omitempty"`
}

func loadKnown(root string) []KnownFinding {
	data, err := os.ReadFile(filepath.Join(root, "known_findings.json"))
	if err != nil {
		return nil
	}
	var kf struct {
		Findings []KnownFinding `json:"findings"`
	}
	if err := json.Unmarshal(data, &kf); err != nil {
		fmt.Fprintln(os.Stderr, "known_findings.json:", err)
		os.Exit(2)
	}
	return kf.Findings
}

func cmdCheck(args []string) int {
	fs := flag.NewFlagSet("check", flag.ExitOnError)
	prop := fs.String("prop", "", "property id")
	tier := fs.String("tier", "quick", "quick|thorough")
	fnRe := fs.String("fn", "", "only functions matching this regexp")
	verbose := fs.Bool("v", false, "verbose")
	dumpSMT := fs.String("dump-smt", "", "write queries of obligations matching this regexp to ./smtdump/")
	noEvidence := fs.Bool("no-evidence", false, "do not write the evidence file")
	fs.Parse(args)
	if t := os.Getenv("VERIF_TIER"); t != "" && *tier == "" {
		*tier = t
	}
	if *prop == "" {
		usage()
	}
	seed := 0
	fmt.Sscanf(os.Getenv("VERIF_SEED"), "%d", &seed)
	t0 := time.Now()
	root := verifRoot()
	eng, err := loadEngine(repoRoot(), filepath.Join(root, "spec"))
	if err != nil {
		fmt.Fprintln(os.Stderr, "govc: load failed:", err)
		// fail closed: a tree that does not load cannot be verified
		fmt.Printf("VIOLATION property=%s replay=%s no-failing-input-found\n", *prop, writeReplayText(root, *prop, "load-failure", err.Error()))
		return 1
	}
	loadS := time.Since(t0).Seconds()
	eng.tier = *tier

	// select the functions under contract for this property
	var fns []*ssa.Function
	var missing []string
	var keys []string
	for k := range eng.contracts.byKey {
		keys = append(keys, k)
	}
	sort.Strings(keys)
	var re *regexp.Regexp
	if *fnRe != "" {
		re = regexp.MustCompile(*fnRe)
	}
	for _, k := range keys {
		c := eng.contracts.byKey[k]
		rel := hasProp(c.Props, *prop)
		for _, cl := range c.Clauses {
			if hasProp(cl.Props, *prop) {
				rel = true
			}
		}
		if !rel {
			continue
		}
		if re != nil && !re.MatchString(k) {
			continue
		}
		fn := eng.lookupFunc(c.Pkg, c.Key)
		if fn == nil {
			missing = append(missing, k)
			continue
		}
		if c.Trusted {
			continue
		}
		fns = append(fns, fn)
	}
	timeout := 10
	if *tier == "thorough" {
		timeout = 60
	}

	// build VCs (sequential: the engine's shared tables are not thread-safe);
	// every function called by contract is verified in the same run, so that no
	// assumed contract is left unchecked
	var results []*FuncResult
	done := map[*ssa.Function]bool{}
	for _, fn := range fns {
		done[fn] = true
	}
	nDirect := len(fns)
	for i := 0; i < len(fns); i++ {
		r := eng.verifyFunc(fns[i])
		r.Dep = i >= nDirect
		results = append(results, r)
		var cs []*ssa.Function
		for c := range r.calls {
			cs = append(cs, c)
		}
		sort.Slice(cs, func(a, b int) bool { return cs[a].String() < cs[b].String() })
		for _, c := range cs {
			if done[c] {
				continue
			}
			done[c] = true
			if cc := eng.contractOf(c); cc != nil && cc.Trusted {
				continue
			}
			if re != nil {
				continue
			}
			fns = append(fns, c)
		}
	}
	genS := time.Since(t0).Seconds() - loadS

	// collect obligations of this property
	var jobs []job
	for _, fr := range results {
		for _, ob := range fr.Obligs {
			if hasProp(ob.Props, *prop) || ob.Kind == "canary" || fr.Dep {
				jobs = append(jobs, job{fr, ob})
			}
		}
	}
	var dumpRe *regexp.Regexp
	if *dumpSMT != "" {
		dumpRe = regexp.MustCompile(*dumpSMT)
		os.MkdirAll("smtdump", 0o755)
	}
	solverTime := map[string]float64{}
	solverCount := map[string]int{}
	var mu sync.Mutex
	jobCh := make(chan job)
	var wg2 sync.WaitGroup
	workers := 12
	for w := 0; w < workers; w++ {
		wg2.Add(1)
		go func() {
			defer wg2.Done()
			for j := range jobCh {
				ob := j.ob
				tStart := time.Now()
				qy := j.fr.vc.query(ob)
				ob.SMTSize = len(qy)
				if dumpRe != nil && dumpRe.MatchString(ob.Name) {
					fn := filepath.Join("smtdump", sanitize(ob.Name)+".smt2")
					os.WriteFile(fn, []byte(qy+"(check-sat)\n"), 0o644)
				}
				if ob.Cond == "true" && !ob.MustFail {
					ob.Result, ob.Solver = "proved", "trivial"
					continue
				}
				if len(qy) > 24<<20 {
					ob.Result, ob.Output = "undecided", "query larger than 24 MB: split the function"
					continue
				}
				to := timeout
				var r SolverResult
				var all []SolverResult
				if ob.MustFail {
					// vacuity canary: short budget; if quantified assumptions make the
					// solver give up, retry on the quantifier-free part
					r = runSolver(solvers[0], "(set-option :produce-models true)\n"+qy+"(check-sat)\n", 2)
					all = append(all, r)
					if r.Status != "sat" && r.Status != "unsat" {
						r = runSolver(solvers[0], "(set-option :produce-models true)\n"+dropQuantified(qy)+"(check-sat)\n", 3)
						all = append(all, r)
					}
				} else {
					// sliced query first (sound: fewer assumptions); the full query decides otherwise
					j.fr.mu.Lock()
					sq := j.fr.vc.queryWith(ob, j.fr.vc.slicedAsserts(ob))
					j.fr.mu.Unlock()
					j.fr.mu.Lock()
					skipSliced := j.fr.slicedMiss >= 3 && ob.Kind == "ensures"
					j.fr.mu.Unlock()
					if skipSliced {
						r = SolverResult{Status: "skipped", Solver: "z3-new"}
					} else {
						r = runSolver(solvers[0], "(set-option :produce-models true)\n"+sq+"(check-sat)\n", 2)
						all = append(all, r)
						if r.Status != "unsat" && r.Status != "sat" {
							j.fr.mu.Lock()
							j.fr.slicedMiss++
							j.fr.mu.Unlock()
						}
					}
					if r.Status != "unsat" && !skipSliced && strings.Contains(qy, "(forall ") && ob.blk == nil {
						// leveled slices: few quantified assumptions at a time
						for _, lvl := range []int{2, 4, 7} {
							j.fr.mu.Lock()
							lq := j.fr.vc.queryWith(ob, j.fr.vc.slicedAssertsLevel(ob, lvl))
							j.fr.mu.Unlock()
							if lq == sq {
								break
							}
							lr := runSolver(solvers[0], "(set-option :produce-models true)\n"+lq+"(check-sat)\n", 2)
							all = append(all, lr)
							if lr.Status == "unsat" {
								r = lr
								r.Solver = fmt.Sprintf("z3-new(sliced L%d)", lvl)
								break
							}
						}
					}
					if r.Status == "unsat" {
						if r.Solver == "z3-new" {
							r.Solver = "z3-new(sliced)"
						}
					} else {
						// path by path: on one concrete path all state merges collapse
						decided := false
						for attempt := 0; attempt < 2 && !decided; attempt++ {
						j.fr.mu.Lock()
						if attempt == 1 && !j.fr.vc.hasLateGroups(ob) {
							j.fr.mu.Unlock()
							break
						}
						paths := j.fr.vc.pathSplits(ob, 400, attempt == 1)
						j.fr.mu.Unlock()
						if len(paths) > 0 {
							// the paths are independent queries: run several at a time
							type pres struct {
								r    SolverResult
								all  []SolverResult
								lits []Term
							}
							resCh := make(chan pres, len(paths))
							psem := make(chan struct{}, 6)
							pctx, pcancel := context.WithCancel(context.Background())
							var retried int32
							for pi_, pinfo := range paths {
								pi_, pinfo := pi_, pinfo
								go func() {
									psem <- struct{}{}
									defer func() { <-psem }()
									if pctx.Err() != nil {
										resCh <- pres{r: SolverResult{Status: "cancelled"}}
										return
									}
									j.fr.mu.Lock()
									pq := j.fr.vc.pathQuery(ob, pinfo)
									j.fr.mu.Unlock()
									if dumpRe != nil && dumpRe.MatchString(ob.Name) {
										os.WriteFile(filepath.Join("smtdump", sanitize(ob.Name)+fmt.Sprintf(".path%d.smt2", pi_)), []byte(pq+"(check-sat)\n"), 0o644)
									}
									pr, pall := solve(pq, j.fr.vc.inputs, to, false)
									if pr.Status != "unsat" && pr.Status != "sat" && pctx.Err() == nil && atomic.CompareAndSwapInt32(&retried, 0, 1) {
										// robustness under machine load: the first path of an obligation that
										// runs out of time gets one more attempt with three times the budget
										// (sound: only the time limit changes)
										pr2, pall2 := solve(pq, j.fr.vc.inputs, 3*to, false)
										pall = append(pall, pall2...)
										if pr2.Status == "unsat" || pr2.Status == "sat" {
											pr = pr2
										}
									}
									resCh <- pres{pr, pall, pinfo.lits}
								}()
							}
							allUnsat := true
							tsum := 0.0
							for range paths {
								pr := <-resCh
								if pr.r.Status == "cancelled" {
									continue
								}
								tsum += pr.r.Time
								all = append(all, pr.all...)
								if pr.r.Status == "sat" && !decided {
									r, decided, allUnsat = pr.r, true, false
									pcancel()
								} else if pr.r.Status != "unsat" {
									if allUnsat && os.Getenv("GOVC_DEBUG") != "" {
										fmt.Fprintf(os.Stderr, "path-split %s: %d paths, path failed (%s): %v\n", ob.Name, len(paths), pr.r.Status, pr.lits)
									}
									allUnsat = false
									pcancel()
								}
							}
							pcancel()
							if allUnsat {
								r = SolverResult{Status: "unsat", Solver: fmt.Sprintf("z3-new(path-split x%d)", len(paths)), Time: tsum}
								decided = true
							}
						}
						}
						if !decided {
							var all2 []SolverResult
							r, all2 = solve(qy, j.fr.vc.inputs, to, *tier == "thorough")
							all = append(all, all2...)
						}
						if r.Status != "unsat" && r.Status != "sat" {
							// any subset of the assumptions is sound: drop one quantified
							// assumption at a time (E-matching interference is the usual culprit)
							if dr, ok := dropOneQuantified(qy, 5); ok {
								r = dr
								all = append(all, dr)
							}
						}
					}
				}
				mu.Lock()
				for _, a := range all {
					solverTime[a.Solver] += a.Time
					solverCount[a.Solver]++
				}
				mu.Unlock()
				ob.Solver, ob.Time, ob.Output, ob.Model = r.Solver, time.Since(tStart).Seconds(), r.Output, r.Model
				switch {
				case ob.MustFail:
					switch r.Status {
					case "sat":
						ob.Result = "reachable"
					case "unsat":
						ob.Result = "vacuous"
					default:
						ob.Result = "cover-unknown"
					}
				case r.Status == "unsat":
					ob.Result = "proved"
				case r.Status == "sat":
					ob.Result = "refuted"
				default:
					ob.Result = "undecided"
					// candidate counterexample from the quantifier-free part (diagnostic only)
					rq := runSolver(solvers[0], "(set-option :produce-models true)\n"+dropQuantified(qy)+"(check-sat)\n(get-value ("+strings.Join(j.fr.vc.inputs, " ")+"))\n", 3)
					if rq.Status == "sat" {
						ob.Model = "candidate (quantified assumptions dropped):\n" + rq.Model
					} else {
						ob.Model = "quantifier-free part is " + rq.Status
					}
				}
			}
		}()
	}
	for _, j := range jobs {
		jobCh <- j
	}
	close(jobCh)
	wg2.Wait()

	obs := jobsObligs(jobs)
	if *prop == "C19" {
		for _, fo := range eng.runFrameSweep() {
			ob := &Obligation{Name: fo.Name, Kind: "frame-global", Props: []string{"C19"}, Solver: "frame-analysis", Result: "proved"}
			if !fo.OK {
				ob.Result = "refuted"
				ob.Output = fo.Reason + " (" + fo.Pos + ")"
			}
			obs = append(obs, ob)
		}
	}
	return report(eng, root, *prop, *tier, seed, results, missing, obs, solverTime, solverCount, loadS, genS, time.Since(t0).Seconds(), *verbose, *noEvidence)
}

type job struct {
	fr *FuncResult
	ob *Obligation
}

func jobsObligs(js []job) []*Obligation {
	var out []*Obligation
	for _, j := range js {
		out = append(out, j.ob)
	}
	return out
}

func sanitize(s string) string {
	r := regexp.MustCompile(`[^A-Za-z0-9_.\-]+`)
	s = r.ReplaceAllString(s, "_")
	if len(s) > 150 {
		s = s[:150]
	}
	return s
}

func writeReplayText(root, prop, name, text string) string {
	dir := filepath.Join(root, "replays", prop)
	os.MkdirAll(dir, 0o755)
	p := filepath.Join(dir, sanitize(name)+".json")
	data, _ := json.MarshalIndent(map[string]interface{}{"property": prop, "obligation": name, "verifier_output": text, "reproduced": false}, "", " ")
	os.WriteFile(p, data, 0o644)
	return p
}

func cmdReplay(args []string) int {
	if len(args) < 1 {
		usage()
	}
	data, err := os.ReadFile(args[0])
	if err != nil {
		fmt.Fprintln(os.Stderr, err)
		return 2
	}
	os.Stdout.Write(data)
	fmt.Println()
	var m map[string]interface{}
	if json.Unmarshal(data, &m) == nil {
		if cmd, ok := m["replay_cmd"].(string); ok && cmd != "" {
			fmt.Println("replay command:", cmd)
		}
	}
	return 0
}

func dropQuantified(q string) string {
	var b strings.Builder
	for _, l := range strings.Split(q, "\n") {
		if strings.HasPrefix(l, "(assert") && (strings.Contains(l, "(forall ") || strings.Contains(l, "(exists ")) {
			continue
		}
		b.WriteString(l)
		b.WriteByte('\n')
	}
	return b.String()
}

// insertBeforeGoal adds assertions just before the final (goal) assertion.
func insertBeforeGoal(q, extra string) string {
	i := strings.LastIndex(strings.TrimRight(q, "\n"), "\n(assert ")
	if i < 0 {
		return q + extra
	}
	return q[:i+1] + extra + q[i+1:]
}

// dropOneQuantified tries the query with each quantified assumption removed in
// turn (in parallel); the first unsat wins.
func dropOneQuantified(q string, timeoutS int) (SolverResult, bool) {
	lines := strings.Split(q, "\n")
	var idx []int
	last := len(lines) - 1
	for last >= 0 && !strings.HasPrefix(lines[last], "(assert") {
		last--
	}
	for i, l := range lines {
		if i != last && strings.HasPrefix(l, "(assert") && strings.Contains(l, "(forall ") {
			idx = append(idx, i)
		}
	}
	if len(idx) == 0 || len(idx) > 60 {
		return SolverResult{}, false
	}
	ctx, cancel := context.WithCancel(context.Background())
	defer cancel()
	ch := make(chan SolverResult, len(idx))
	sem := make(chan struct{}, 6)
	for _, di := range idx {
		di := di
		go func() {
			sem <- struct{}{}
			defer func() { <-sem }()
			if ctx.Err() != nil {
				ch <- SolverResult{Status: "cancelled"}
				return
			}
			var b strings.Builder
			for i, l := range lines {
				if i == di {
					continue
				}
				b.WriteString(l)
				b.WriteByte('\n')
			}
			r := runSolverCtx(ctx, solvers[0], b.String()+"(check-sat)\n", timeoutS)
			r.Solver = "z3-new(drop-one)"
			ch <- r
		}()
	}
	for range idx {
		r := <-ch
		if r.Status == "unsat" {
			return r, true
		}
	}
	return SolverResult{}, false
}
