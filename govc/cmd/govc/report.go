package main

import (
	"encoding/json"
	"fmt"
	"os"
	"path/filepath"
	"sort"
	"strings"
)

func report(eng *Engine, root, prop, tier string, seed int, results []*FuncResult, missing []string, obs []*Obligation,
	solverTime map[string]float64, solverCount map[string]int, loadS, genS, wallS float64, verbose, noEvidence bool) int {

	known := loadKnown(root)
	knownOpen := map[string]KnownFinding{}
	for _, k := range known {
		if k.Property == prop && k.Status == "open" {
			knownOpen[k.Obligation] = k
		}
	}
	violations := 0
	var lines []string
	var samples []interface{}
	nObl, nDis, nKnown := 0, 0, 0
	covers, coversOK := 0, 0
	perKind := map[string]int{}
	var largest int
	var largestName string
	bySolver := map[string]int{}
	var engineProblems []string

	for _, m := range missing {
		engineProblems = append(engineProblems, "contract for missing function "+m)
	}
	for _, fr := range results {
		if fr.Status != "ok" {
			engineProblems = append(engineProblems, fmt.Sprintf("%s: %s: %s", fr.Fn, fr.Status, firstLine(fr.Err)))
			if os.Getenv("GOVC_TRACE") != "" {
				fmt.Fprintln(os.Stderr, fr.Err)
			}
		}
	}
	seenKnown := map[string]bool{}
	for _, ob := range obs {
		if ob.SMTSize > largest {
			largest, largestName = ob.SMTSize, ob.Name
		}
		if ob.MustFail {
			covers++
			switch ob.Result {
			case "reachable":
				coversOK++
			case "vacuous":
				engineProblems = append(engineProblems, "vacuous: "+ob.Name+" (assumptions are contradictory)")
			}
			continue
		}
		nObl++
		perKind[ob.Kind]++
		switch ob.Result {
		case "proved":
			nDis++
			bySolver[ob.Solver]++
			if len(samples) < 12 && ob.Solver != "trivial" {
				samples = append(samples, map[string]interface{}{"obligation": ob.Name, "kind": ob.Kind, "solver": ob.Solver, "time_s": round3(ob.Time), "smt_bytes": ob.SMTSize})
			}
		default:
			if kf, ok := knownOpen[ob.Name]; ok {
				nKnown++
				seenKnown[ob.Name] = true
				lines = append(lines, fmt.Sprintf("KNOWN-FINDING: property=%s %s: %s", prop, ob.Name, kf.What))
				continue
			}
			violations++
			path := writeReplay(eng, root, prop, ob)
			suffix := ""
			if !replayReproduced(path) {
				suffix = " no-failing-input-found"
			}
			lines = append(lines, fmt.Sprintf("VIOLATION property=%s replay=%s obligation=%q result=%s%s", prop, path, ob.Name, ob.Result, suffix))
		}
	}
	// a known finding that no longer fails is only a note (the defect may have been fixed)
	for name := range knownOpen {
		if !seenKnown[name] {
			lines = append(lines, fmt.Sprintf("NOTE: known finding %s did not fail in this run", name))
		}
	}
	// fail closed on engine problems
	for _, p := range engineProblems {
		violations++
		path := writeReplayText(root, prop, "engine:"+p, p)
		lines = append(lines, fmt.Sprintf("VIOLATION property=%s replay=%s %s no-failing-input-found", prop, path, strings.ReplaceAll(p, "\n", " ")))
	}
	if nObl == 0 {
		violations++
		path := writeReplayText(root, prop, "no-obligations", "no obligations were generated for this property")
		lines = append(lines, fmt.Sprintf("VIOLATION property=%s replay=%s no obligations generated no-failing-input-found", prop, path))
	}
	sort.Strings(lines)
	for _, l := range lines {
		fmt.Println(l)
	}
	var fnNames []string
	var notes []string
	imprecise := map[string]bool{}
	for _, fr := range results {
		fnNames = append(fnNames, fr.Fn)
		for _, n := range fr.Notes {
			notes = append(notes, fr.Fn+": "+n)
		}
		for _, i := range fr.Imprecise {
			imprecise[i] = true
		}
	}
	fmt.Printf("govc: property=%s tier=%s functions=%d obligations=%d discharged=%d known-findings=%d violations=%d covers=%d/%d wall=%.1fs (load %.1fs, vcgen %.1fs)\n",
		prop, tier, len(results), nObl, nDis, nKnown, violations, coversOK, covers, wallS, loadS, genS)
	if verbose {
		for _, ob := range obs {
			fmt.Printf("  %-9s %-7s %6.2fs %7dB %s\n", ob.Result, ob.Solver, ob.Time, ob.SMTSize, ob.Name)
		}
		for _, n := range notes {
			fmt.Println("  note:", n)
		}
	}
	if !noEvidence {
		assumptions := baseAssumptions(prop)
		for k := range eng.trustedUsed {
			assumptions = append(assumptions, "trusted contract (assumed, body not verified): "+k)
		}
		for k := range eng.assumedInv {
			assumptions = append(assumptions, "representation invariant assumed at function entry, not proved to be maintained (assumes clause): "+k)
		}
		for k, n := range eng.unmodelled {
			assumptions = append(assumptions, fmt.Sprintf("unmodelled call treated as havoc-everything (%d sites): %s", n, k))
		}
		for _, n := range notes {
			if strings.Contains(n, "ABSTRACTED: ") {
				assumptions = append(assumptions, "abstracted (contract flag `abstract`): "+strings.Replace(n, "ABSTRACTED: ", "", 1))
			}
		}
		for k := range imprecise {
			assumptions = append(assumptions, "imprecise operator (uninterpreted with bounds only): "+k)
		}
		sort.Strings(assumptions)
		if len(samples) == 0 {
			for _, ob := range obs {
				if len(samples) < 5 {
					samples = append(samples, map[string]interface{}{"obligation": ob.Name, "kind": ob.Kind, "result": ob.Result})
				}
			}
		}
		ev := map[string]interface{}{
			"property_id": prop, "tier": tier, "seed": seed, "level": "proof",
			"coverage": map[string]interface{}{
				"obligations": nObl, "discharged": nDis,
				"known_finding_obligations": nKnown,
				"checker_cmd":  fmt.Sprintf("bin/govc check -prop %s -tier %s", prop, tier),
				"trusted_base": trustedBase(),
				"functions_under_contract": fnNames,
				"obligations_by_kind":      perKind,
				"discharged_by_backend":    bySolver,
				"solver_time_s":            roundMap(solverTime),
				"solver_runs":              solverCount,
				"largest_query_bytes":      largest,
				"largest_query":            largestName,
				"covers_reachable":         coversOK, "covers_total": covers,
				"integer_model":            "math+wrap: SMT Int with exact wrap-around per Go type (no mathematical-integer assumption); int is 64 bit",
				"samples":                  samples,
				"engine_notes":             notes,
				"deferred_to_thorough":     sortedKeys(eng.deferred),
				"load_s":                   round3(loadS), "vcgen_s": round3(genS),
			},
			"assumptions": assumptions,
			"wall_s":      round3(wallS),
			"violations":  violations,
		}
		if prop == "C19" {
			// the frame sweep is a flow analysis over the SSA, not an SMT proof
			ev["level"] = "other"
			cov := ev["coverage"].(map[string]interface{})
			cov["explanation"] = "frame condition 'no store, map update, append, copy or delete whose target is reachable from a package-level variable outside package initialisation': one obligation per store-like instruction of every function of the repository (the obligations count), each decided by a conservative taint/escape analysis over go/ssa of the current tree (roots: package-level variables; flows through addressing, loads of pointer-like values, phi, conversions, calls with parameter/result/escape summaries, closure captures); discharged = targets shown not global-rooted. Not an SMT proof and not a model of schedules."
			cov["evaluations"] = nObl
			cov["distinct_nontrivial"] = nObl
			cov["rule"] = "one case per store-like SSA instruction (store, map update, append, copy, delete) of every function in the module; all are distinct program points"
		}
		os.MkdirAll(filepath.Join(root, "evidence"), 0o755)
		data, _ := json.MarshalIndent(ev, "", " ")
		os.WriteFile(filepath.Join(root, "evidence", prop+".json"), append(data, '\n'), 0o644)
	}
	if violations > 0 {
		return 1
	}
	return 0
}

func firstLine(s string) string {
	if i := strings.IndexByte(s, '\n'); i >= 0 {
		return s[:i]
	}
	return s
}

func round3(f float64) float64 { return float64(int(f*1000+0.5)) / 1000 }

func roundMap(m map[string]float64) map[string]float64 {
	out := map[string]float64{}
	for k, v := range m {
		out[k] = round3(v)
	}
	return out
}

func trustedBase() []string {
	return []string{
		"golang.org/x/tools/go/ssa v0.29.0 lowers the Go source in /repo to SSA faithfully",
		"govc's semantics of each SSA instruction (DESIGN.md appendix A) and its VC generator (new, unaudited; guarded by the must-fail selftest corpus and exit-reachability canaries)",
		"SMT solvers z3 5.1.0, z3 4.8.12, cvc5 1.0.3",
		"Go compiler/runtime for replays",
	}
}

func baseAssumptions(prop string) []string {
	return []string{
		"interface-method specs for io.Writer/io.Reader/structform visitors are assumptions about code outside the library (DESIGN.md 2.3)",
		"floats are modelled by their IEEE bit patterns; float arithmetic and comparisons are uninterpreted",
		"package-level variables are not modified after init (decided separately by the C19 frame-global sweep)",
		"caller-provided slices do not alias instance-private arrays unless a contract says so",
		"stream-level inductions over the local contracts are paper lemmas (DESIGN.md 3.21)",
	}
}

func writeReplay(eng *Engine, root, prop string, ob *Obligation) string {
	dir := filepath.Join(root, "replays", prop)
	os.MkdirAll(dir, 0o755)
	p := filepath.Join(dir, sanitize(ob.Name)+".json")
	out := ob.Output
	if len(out) > 20000 {
		out = out[:20000]
	}
	m := map[string]interface{}{
		"property": prop, "obligation": ob.Name, "kind": ob.Kind, "function": ob.Fn, "site": ob.Site,
		"position": ob.Pos.String(), "result": ob.Result, "solver": ob.Solver,
		"verifier_output": out, "model": ob.Model, "reproduced": false,
	}
	data, _ := json.MarshalIndent(m, "", " ")
	os.WriteFile(p, data, 0o644)
	return p
}

func replayReproduced(path string) bool {
	data, err := os.ReadFile(path)
	if err != nil {
		return false
	}
	var m map[string]interface{}
	if json.Unmarshal(data, &m) != nil {
		return false
	}
	b, _ := m["reproduced"].(bool)
	return b
}

func sortedKeys(m map[string]bool) []string {
	out := []string{}
	for k := range m {
		out = append(out, k)
	}
	sort.Strings(out)
	return out
}
