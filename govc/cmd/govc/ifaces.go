package main

// Interface-method specifications: the assumed effect of dynamic calls through
// io.Writer, io.Reader and the structform visitor interfaces, expressed over
// ghost state (#out, #in, #ev).  These are assumptions about code outside the
// library, taken from the interface documentation.

import (
	"fmt"
	"go/types"
	"strings"

	"golang.org/x/tools/go/ssa"
)

// event kinds recorded in #evk
var eventKinds = map[string]int{
	"OnObjectStart": 1, "OnObjectFinished": 2, "OnKey": 3, "OnKeyRef": 3,
	"OnArrayStart": 4, "OnArrayFinished": 5, "OnNil": 6, "OnBool": 7,
	"OnString": 8, "OnStringRef": 8,
	"OnInt8": 9, "OnInt16": 10, "OnInt32": 11, "OnInt64": 12, "OnInt": 13,
	"OnByte": 14, "OnUint8": 15, "OnUint16": 16, "OnUint32": 17, "OnUint64": 18, "OnUint": 19,
	"OnFloat32": 20, "OnFloat64": 21,
	"OnBoolArray": 30, "OnStringArray": 31, "OnInt8Array": 32, "OnInt16Array": 33, "OnInt32Array": 34,
	"OnInt64Array": 35, "OnIntArray": 36, "OnBytes": 37, "OnUint8Array": 38, "OnUint16Array": 39,
	"OnUint32Array": 40, "OnUint64Array": 41, "OnUintArray": 42, "OnFloat32Array": 43, "OnFloat64Array": 44,
	"OnBoolObject": 50, "OnStringObject": 51, "OnInt8Object": 52, "OnInt16Object": 53, "OnInt32Object": 54,
	"OnInt64Object": 55, "OnIntObject": 56, "OnUint8Object": 57, "OnUint16Object": 58, "OnUint32Object": 59,
	"OnUint64Object": 60, "OnUintObject": 61, "OnFloat32Object": 62, "OnFloat64Object": 63,
}

func isVisitorIface(t types.Type) bool {
	n, ok := t.(*types.Named)
	if !ok {
		return false
	}
	if n.Obj().Pkg() != nil && strings.HasSuffix(n.Obj().Pkg().Path(), "go-structform/gotype") && n.Obj().Name() == "visitor" {
		// gotype's private name for structform.ExtVisitor (an interface that only embeds it)
		if it, ok := n.Underlying().(*types.Interface); ok && it.NumEmbeddeds() == 1 && it.NumExplicitMethods() == 0 {
			return isVisitorIface(it.EmbeddedType(0))
		}
	}
	if n.Obj().Pkg() == nil || !strings.HasSuffix(n.Obj().Pkg().Path(), "go-structform") {
		return false
	}
	switch n.Obj().Name() {
	case "Visitor", "ExtVisitor", "ObjectVisitor", "ArrayVisitor", "ValueVisitor", "ArrayValueVisitor", "ObjectValueVisitor", "StringRefVisitor":
		return true
	}
	return false
}

func isNamed(t types.Type, pkg, name string) bool {
	n, ok := t.(*types.Named)
	return ok && n.Obj().Pkg() != nil && n.Obj().Pkg().Path() == pkg && n.Obj().Name() == name
}

func evGhosts() []string {
	return []string{"#evn", "#evk", "#eva", "#evb", "#evl", "#evc", "#vfail", "#verr#typ", "#verr#val"}
}

func ifaceMods(c *ssa.CallCommon) *modset {
	t := c.Value.Type()
	m := newModset()
	switch {
	case isNamed(t, "io", "Writer") && c.Method.Name() == "Write":
		m.addGhost("#out", "#outlen", "#wfails")
		return m
	case isNamed(t, "io", "Reader") && c.Method.Name() == "Read":
		m.addGhost("#in", "#inpos", "#ineof", "#rdzero", "#rdcount", "#rdn")
		m.fams["E$uint8"] = "Int"
		return m
	case isVisitorIface(t):
		if _, ok := eventKinds[c.Method.Name()]; ok {
			m.addGhost(evGhosts()...)
			m.allocs = true
			return m
		}
	case c.Method.Name() == "Error" && isErrorType(t):
		m.allocs = true
		return m
	}
	return nil
}

func isErrorType(t types.Type) bool {
	return types.Identical(t, types.Universe.Lookup("error").Type())
}

func (fr *Frame) invoke(x *ssa.Call, recv Val, m *types.Func, args []Val, st *State, rch Term) Val {
	vc := fr.vc
	t := x.Common().Value.Type()
	switch {
	case isNamed(t, "io", "Writer") && m.Name() == "Write":
		return fr.writerWrite(x, args[0], st, rch)
	case isNamed(t, "io", "Reader") && m.Name() == "Read":
		return fr.readerRead(x, args[0], st, rch)
	case isVisitorIface(t):
		if k, ok := eventKinds[m.Name()]; ok {
			return fr.visitorEvent(x, m.Name(), k, args, st, rch)
		}
	case m.Name() == "Error" && isErrorType(t):
		r := vc.freshVal(fr.prefix+"."+x.Name(), x.Type())
		a := vc.get(st, "$alloc")
		vc.assume(and(eq(r.C[0], a), sx("<=", "0", r.C[1]), sx("<=", r.C[1], "4096")))
		vc.set(st, "$alloc", sx("+", a, r.C[1], "1"))
		return r
	}
	// devirtualise when the dynamic type is statically known
	if len(recv.Fv) == 1 && recv.Fv[0].T != nil {
		if fn := vc.eng.prog.LookupMethod(recv.Fv[0].T, m.Pkg(), m.Name()); fn != nil {
			return fr.static(x, fn, append([]Val{recv.Fv[0]}, args...), nil, st, rch)
		}
	}
	return fr.unknownCall(x, "invoke "+m.FullName(), st, rch)
}

func (fr *Frame) freshError(hint string) Val {
	vc := fr.vc
	e := vc.freshVal(hint, types.Universe.Lookup("error").Type())
	vc.assume(and(sx("<=", "0", e.C[0]), implies(eq(e.C[0], "0"), eq(e.C[1], "0"))))
	return e
}

// io.Writer.Write(b): appends to #out.  "Keeps failing": once a write has
// failed every later write fails too.
func (fr *Frame) writerWrite(x *ssa.Call, b Val, st *State, rch Term) Val {
	vc := fr.vc
	vc.regFam("E$uint8", "Int")
	heap := vc.get(st, "E$uint8")
	out := vc.get(st, "#out")
	olen := vc.get(st, "#outlen")
	wf := vc.get(st, "#wfails")
	n := vc.fresh(fr.prefix+"."+x.Name()+".n", "Int")
	e := fr.freshError(fr.prefix + "." + x.Name() + ".err")
	okT := vc.define("wok", "Bool", eq(e.C[0], "0"))
	vc.assume(and(sx("<=", "0", n), sx("<=", n, b.C[1]), implies(okT, eq(n, b.C[1])), implies(sx(">", wf, "0"), not(okT))))
	// contents: on success exactly the bytes of b are appended
	if k, ok := litInt(b.C[1]); ok && k <= 16 {
		t := out
		for i := int64(0); i < k; i++ {
			t = store(t, add(olen, itoa(i)), vc.sel(heap, adr(b.C[0], itoa(i))))
		}
		nf := vc.fresh("#out~f", "(Array Int Int)")
		vc.set(st, "#out", ite(okT, t, nf))
	} else {
		nw := vc.fresh("#out~w", "(Array Int Int)")
		vc.assume(implies(okT, fmt.Sprintf("(forall ((k Int)) (! (= (select %s k) (ite (and (<= %s k) (< k (+ %s %s))) (select %s %s) (select %s k))) :pattern ((select %s k))))",
			nw, olen, olen, b.C[1], heap, adr(b.C[0], sx("-", "k", olen)), out, nw)))
		st.m["#out"] = nw
	}
	vc.set(st, "#outlen", add(olen, n))
	vc.set(st, "#wfails", add(wf, ite(okT, "0", "1")))
	return Val{T: x.Type(), C: []Term{n, e.C[0], e.C[1]}}
}

// io.Reader.Read(p): 0 <= n <= len(p) bytes are moved from #in into p; data
// may arrive together with an error; io.EOF only at the end of #in.
func (fr *Frame) readerRead(x *ssa.Call, p Val, st *State, rch Term) Val {
	vc := fr.vc
	vc.regFam("E$uint8", "Int")
	heap := vc.get(st, "E$uint8")
	in := vc.get(st, "#in")
	pos := vc.get(st, "#inpos")
	ilen := vc.declare("#inlen@0", "Int")
	n := vc.fresh(fr.prefix+"."+x.Name()+".n", "Int")
	e := fr.freshError(fr.prefix + "." + x.Name() + ".err")
	eofT, eofV := fr.ioEOF()
	isEOF := and(eq(e.C[0], eofT), eq(e.C[1], eofV))
	vc.assume(and(sx("<=", "0", n), sx("<=", n, p.C[1]), sx("<=", n, sx("-", ilen, pos)), sx("<=", pos, ilen),
		implies(isEOF, eq(sx("+", pos, n), ilen)),
		// a well-behaved reader does not return (0, nil) for a non-empty buffer while data remains forever;
		// (0, nil) is allowed but counted
		implies(and(eq(e.C[0], "0"), eq(n, "0"), sx(">", p.C[1], "0")), sx("<", pos, ilen))))
	nw := vc.fresh("E$uint8~rd", "(Array Int Int)")
	vc.assume(fmt.Sprintf("(forall ((k Int)) (! (= (select %s k) (ite (and (<= %s k) (< k (+ %s %s))) (select %s (+ %s (- k %s))) (select %s k))) :pattern ((select %s k))))",
		nw, p.C[0], p.C[0], n, in, pos, p.C[0], heap, nw))
	st.m["E$uint8"] = nw
	vc.set(st, "#inpos", add(pos, n))
	vc.set(st, "#rdcount", add(vc.get(st, "#rdcount"), "1"))
	vc.set(st, "#rdn", n)
	rz := vc.get(st, "#rdzero")
	vc.set(st, "#rdzero", ite(and(eq(n, "0"), eq(e.C[0], "0")), add(rz, "1"), rz))
	return Val{T: x.Type(), C: []Term{n, e.C[0], e.C[1]}}
}

func (fr *Frame) ioEOF() (Term, Term) {
	vc := fr.vc
	return itoa(int64(vc.eng.typeIDByName("*errors.errorString"))), "(- 77)"
}

// Visitor event: recorded in #ev; returns a fresh error.  Protocol: no event
// may be delivered after a visitor call has failed.
func (fr *Frame) visitorEvent(x *ssa.Call, name string, kind int, args []Val, st *State, rch Term) Val {
	vc := fr.vc
	vfail := vc.get(st, "#vfail")
	fr.vc.oblige("protocol", fr.siteOf(x, "event:"+name)+":no-event-after-visitor-error", rch, not(vfail), fr.props, !fr.top, vc.pos(x.Pos()))
	n := vc.get(st, "#evn")
	vc.set(st, "#evk", store(vc.get(st, "#evk"), n, itoa(int64(kind))))
	a, b := Term("0"), Term("0")
	switch {
	case len(args) == 0:
	case name == "OnObjectStart" || name == "OnArrayStart":
		a, b = args[0].t(), args[1].t()
	case name == "OnBool":
		a = ite(args[0].t(), "1", "0")
	case isString(args[0].T) || isByteSlice(args[0].T):
		if kind < 30 {
			vc.regFam("E$uint8", "Int")
			heap := vc.get(st, "E$uint8")
			snap := vc.fresh("snap", "(Array Int Int)")
			ln := args[0].C[1]
			if k, ok := litInt(ln); ok && k <= 16 {
				for i := int64(0); i < k; i++ {
					vc.assume(eq(sel(snap, itoa(i)), sel(heap, adr(args[0].C[0], itoa(i)))))
				}
			} else {
				vc.assume(fmt.Sprintf("(forall ((k Int)) (! (=> (and (<= 0 k) (< k %s)) (= (select %s k) (select %s %s))) :pattern ((select %s k))))", ln, snap, heap, adr(args[0].C[0], "k"), snap))
			}
			vc.set(st, "#evc", store(vc.get(st, "#evc"), n, snap))
			vc.set(st, "#evl", store(vc.get(st, "#evl"), n, ln))
			a = ln
		} else {
			a, b = args[0].C[1], args[0].C[0]
		}
	case len(args[0].C) == 1:
		a = args[0].t()
	default:
		// typed slices / maps: length (or map ref) and address
		a = args[0].C[len(args[0].C)-2]
		b = args[0].C[0]
	}
	vc.set(st, "#eva", store(vc.get(st, "#eva"), n, a))
	vc.set(st, "#evb", store(vc.get(st, "#evb"), n, b))
	vc.set(st, "#evn", add(n, "1"))
	e := fr.freshError(fr.prefix + "." + x.Name() + ".verr")
	failed := vc.define("vf", "Bool", not(eq(e.C[0], "0")))
	vc.set(st, "#vfail", or(vfail, failed))
	vc.set(st, "#verr#typ", ite(failed, e.C[0], vc.get(st, "#verr#typ")))
	vc.set(st, "#verr#val", ite(failed, e.C[1], vc.get(st, "#verr#val")))
	return Val{T: x.Type(), C: e.C}
}
