package main

// Evaluation of contract expressions (Go expression syntax + spec builtins)
// into SMT terms over a symbolic state.

import (
	"fmt"
	"go/ast"
	"go/constant"
	"go/token"
	"go/types"
	"sort"
	"strconv"
	"strings"

	"golang.org/x/tools/go/ssa"
)

// SVal: a spec value.  T == nil means a mathematical integer (Bool false) or a
// boolean (Bool true).
type SVal struct {
	T    types.Type
	C    []Term
	Bool bool
	Pl   *Place
	Nil  bool
}

func sInt(t Term) SVal  { return SVal{C: []Term{t}} }
func sBool(t Term) SVal { return SVal{C: []Term{t}, Bool: true} }

func (v SVal) t() Term {
	if len(v.C) != 1 {
		panic(specErr{fmt.Sprintf("expected a scalar, got %d components (type %v)", len(v.C), v.T)})
	}
	return v.C[0]
}

type specErr struct{ msg string }

func (e specErr) Error() string { return "contract error: " + e.msg }

func specFail(format string, a ...interface{}) {
	panic(specErr{fmt.Sprintf(format, a...)})
}

type SpecEnv struct {
	fr      *Frame
	fn      *ssa.Function
	params  map[string]Val
	results map[string]Val
	cur     *State
	old     *State
	bound   map[string]SVal
	lets    map[string]SVal
	macros  map[string]*Clause
	block   *ssa.BasicBlock // context for local names (loop invariants)
	callee  bool
	inOld   bool
	inPrev  bool
	prevSt  *State
	prevPhi map[*ssa.Phi]Val
	qdepth  int
}

func (fr *Frame) specEnv(st *State, b *ssa.BasicBlock) *SpecEnv {
	env := &SpecEnv{fr: fr, fn: fr.fn, params: fr.params, cur: st, old: fr.entry, bound: map[string]SVal{}, lets: map[string]SVal{}, block: b}
	if fr.contract != nil {
		env.evalLets(fr.contract, false)
	}
	return env
}

func (fr *Frame) specEnvExit(st *State, res Val) *SpecEnv {
	env := &SpecEnv{fr: fr, fn: fr.fn, params: fr.params, cur: st, old: fr.entry, bound: map[string]SVal{}, lets: map[string]SVal{}}
	env.bindResults(fr.fn, res)
	if fr.contract != nil {
		env.evalLets(fr.contract, true)
	}
	return env
}

func (env *SpecEnv) bindResults(fn *ssa.Function, res Val) {
	env.results = map[string]Val{}
	rs := fn.Signature.Results()
	off := 0
	for i := 0; i < rs.Len(); i++ {
		n := len(leaves(rs.At(i).Type()))
		v := Val{T: rs.At(i).Type(), C: res.C[off : off+n]}
		off += n
		if name := rs.At(i).Name(); name != "" && name != "_" {
			env.results[name] = v
		}
		env.results[fmt.Sprintf("ret%d", i)] = v
		if rs.Len() == 1 {
			env.results["ret"] = v
		}
		if isErrorType(rs.At(i).Type()) && i == rs.Len()-1 {
			if _, taken := env.results["err"]; !taken {
				env.results["err"] = v
			}
		}
	}
}

// lets: "let x = e" clauses; those mentioning results are only evaluated at exit.
func (env *SpecEnv) evalLets(c *Contract, atExit bool) {
	for _, cl := range c.byKind("let") {
		if cl.Macro {
			if env.macros == nil {
				env.macros = map[string]*Clause{}
			}
			env.macros[cl.Name] = cl
			continue
		}
		func() {
			defer func() {
				if r := recover(); r != nil {
					if _, ok := r.(specErr); ok && !atExit {
						return // refers to results / exit-only names
					}
					panic(r)
				}
			}()
			env.lets[cl.Name] = env.eval(cl.Expr)
		}()
	}
}

func (env *SpecEnv) vc() *VC { return env.fr.vc }

func (env *SpecEnv) boolOf(e SpecExpr) Term {
	v := env.eval(e)
	if !v.Bool && !(v.T != nil && isBool(v.T)) {
		specFail("expected a boolean expression")
	}
	return v.t()
}

func (env *SpecEnv) intOf(e SpecExpr) Term {
	v := env.eval(e)
	if v.Bool {
		specFail("expected an integer expression")
	}
	return v.t()
}

func (env *SpecEnv) eval(e SpecExpr) SVal {
	switch x := e.(type) {
	case SpecImplies:
		return sBool(implies(env.boolOf(x.A), env.boolOf(x.B)))
	case SpecIff:
		return sBool(eq(env.boolOf(x.A), env.boolOf(x.B)))
	case SpecGo:
		return env.expr(x.E)
	}
	panic("bad spec expr")
}

func fromVal(v Val) SVal {
	s := SVal{T: v.T, C: v.C, Pl: v.Pl}
	if v.T != nil && isBool(v.T) && len(v.C) == 1 {
		s.Bool = true
	}
	return s
}

func (v SVal) val() Val { return Val{T: v.T, C: v.C, Pl: v.Pl} }

// loaded: a value read from the heap by a contract satisfies its type's
// invariant (heap well-typedness); only asserted for ground terms.
func (env *SpecEnv) loaded(v Val) SVal {
	if env.qdepth == 0 {
		env.vc().assume(env.vc().wf(v, env.state()))
	}
	return fromVal(v)
}

func (env *SpecEnv) state() *State {
	if env.inPrev {
		return env.prevSt
	}
	if env.inOld {
		return env.old
	}
	return env.cur
}

var ghostGroups = map[string][]string{
	"out": {"#out", "#outlen", "#wfails"},
	"ev":  {"#evn", "#evk", "#eva", "#evb", "#evc", "#evl", "#vfail", "#verr#typ", "#verr#val", "#depth"},
	"in":  {"#in", "#inpos", "#inlen", "#ineof", "#rdzero", "#rdcount", "#rdn"},
}

func (env *SpecEnv) ident(name string) SVal {
	vc := env.vc()
	if v, ok := env.bound[name]; ok {
		return v
	}
	if v, ok := env.lets[name]; ok {
		return v
	}
	switch name {
	case "true":
		return sBool("true")
	case "false":
		return sBool("false")
	case "nil":
		return SVal{Nil: true, C: []Term{"0"}}
	}
	if strings.HasPrefix(name, "ghost_") {
		g := "#" + name[6:]
		if g == "#verr" {
			// ghost invariant: a recorded visitor failure carries a non-nil error
			vc.assume(implies(vc.get(env.state(), "#vfail"), not(eq(vc.get(env.state(), "#verr#typ"), "0"))))
			return SVal{T: types.Universe.Lookup("error").Type(), C: []Term{vc.get(env.state(), "#verr#typ"), vc.get(env.state(), "#verr#val")}}
		}
		srt, ok := ghostSorts[g]
		if !ok {
			specFail("unknown ghost variable %s", g)
		}
		t := vc.get(env.state(), g)
		if srt == "Bool" {
			return sBool(t)
		}
		return sInt(t) // arrays are only used through indexing
	}
	if strings.HasPrefix(name, "loopvar_") {
		return env.loopVar(name[8:])
	}
	if env.results != nil {
		if v, ok := env.results[name]; ok {
			return fromVal(v)
		}
	}
	if v, ok := env.params[name]; ok {
		return fromVal(v)
	}
	// package-level constant or variable
	if env.fn.Pkg != nil {
		if obj := env.fn.Pkg.Pkg.Scope().Lookup(name); obj != nil {
			return env.object(obj)
		}
	} else if p := vc.eng.pkgOfSynthetic(env.fn); p != nil {
		if obj := p.Pkg.Scope().Lookup(name); obj != nil {
			return env.object(obj)
		}
	}
	if obj := types.Universe.Lookup(name); obj != nil {
		if c, ok := obj.(*types.Const); ok {
			return constSVal(c.Val(), c.Type())
		}
	}
	// local variable by debug name
	if env.block != nil {
		if v, ok := env.localByName(name); ok {
			return v
		}
	}
	specFail("unknown identifier %q in %s", name, env.fn)
	return SVal{}
}

func constSVal(v constant.Value, t types.Type) SVal {
	switch v.Kind() {
	case constant.Bool:
		if constant.BoolVal(v) {
			return sBool("true")
		}
		return sBool("false")
	case constant.Int:
		n, _ := new(bigInt).SetString(v.ExactString(), 10)
		s := sInt(bigTerm(n))
		if b, ok := t.Underlying().(*types.Basic); ok && b.Info()&types.IsUntyped == 0 {
			s.T = t
		}
		return s
	}
	specFail("unsupported constant kind %v", v.Kind())
	return SVal{}
}

func (env *SpecEnv) object(obj types.Object) SVal {
	vc := env.vc()
	switch o := obj.(type) {
	case *types.Const:
		if o.Val().Kind() == constant.String {
			v := vc.stringConst(constant.StringVal(o.Val()), nil)
			return fromVal(v)
		}
		return constSVal(o.Val(), o.Type())
	case *types.Var:
		// package-level variable: load from its global place
		pkg := vc.eng.prog.Package(o.Pkg())
		if pkg == nil {
			specFail("no ssa package for %s", o.Pkg().Path())
		}
		g, ok := pkg.Members[o.Name()].(*ssa.Global)
		if !ok {
			specFail("%s is not a global", o.Name())
		}
		t := g.Type().(*types.Pointer).Elem()
		pl := &Place{Root: t, Addr: globalAddr(vc.eng, g), Cur: t}
		if _, isArr := t.Underlying().(*types.Array); isArr {
			return SVal{T: types.NewPointer(t), C: []Term{pl.Addr}, Pl: pl}
		}
		lv := vc.load(pl, env.state())
		env.fr.applyGlobalInv(pl, lv, env.state(), "true")
		return fromVal(lv)
	case *types.TypeName:
		specFail("type name %s used as value", o.Name())
	}
	specFail("unsupported object %v", obj)
	return SVal{}
}

func (env *SpecEnv) loopVar(name string) SVal {
	fr := env.fr
	if env.block == nil {
		specFail("@%s outside a loop clause", name)
	}
	if name == "mappos" {
		// number of entries the (only) map iterator of the function has yielded
		var found *ssa.Range
		for _, b := range fr.fn.Blocks {
			for _, ins := range b.Instrs {
				if r, ok := ins.(*ssa.Range); ok {
					if _, isMap := r.X.Type().Underlying().(*types.Map); isMap {
						if found != nil {
							specFail("@mappos: more than one map iterator in %s", fr.fn)
						}
						found = r
					}
				}
			}
		}
		if found == nil {
			specFail("@mappos: no map iterator in %s", fr.fn)
		}
		return sInt(env.vc().get(env.state(), fr.iterKey(found)))
	}
	for _, ins := range env.block.Instrs {
		phi, ok := ins.(*ssa.Phi)
		if !ok {
			break
		}
		c := strings.TrimPrefix(phi.Comment, "#")
		if c == name || phi.Name() == name {
			if env.inPrev {
				if hv, ok := env.prevPhi[phi]; ok {
					return fromVal(hv)
				}
				specFail("no head value for @%s", name)
			}
			return fromVal(fr.vals[phi])
		}
	}
	specFail("no loop variable @%s at loop head of %s", name, fr.fn)
	return SVal{}
}

func (env *SpecEnv) localByName(name string) (SVal, bool) {
	fr := env.fr
	// φ at the context block first
	for _, ins := range env.block.Instrs {
		phi, ok := ins.(*ssa.Phi)
		if !ok {
			break
		}
		if phi.Comment == name {
			return fromVal(fr.vals[phi]), true
		}
	}
	// last DebugRef dominating the context block
	var best *ssa.DebugRef
	for _, b := range fr.fn.Blocks {
		if !(b == env.block || b.Dominates(env.block)) {
			continue
		}
		for _, ins := range b.Instrs {
			d, ok := ins.(*ssa.DebugRef)
			if !ok {
				continue
			}
			id, ok := d.Expr.(*ast.Ident)
			if !ok || id.Name != name {
				continue
			}
			if b == env.block {
				// only φ-defined or earlier-defined values are meaningful at the head
				if _, isPhi := d.X.(*ssa.Phi); !isPhi {
					continue
				}
			}
			if _, defined := fr.vals[d.X]; !defined {
				if _, isConst := d.X.(*ssa.Const); !isConst {
					continue
				}
			}
			if best == nil || best.Block().Dominates(b) {
				best = d
			}
		}
	}
	if best == nil {
		return SVal{}, false
	}
	v := fr.value(best.X)
	if best.IsAddr {
		pl := env.vc().placeOf(v)
		return fromVal(env.vc().load(pl, env.state())), true
	}
	return fromVal(v), true
}

// ---------------------------------------------------------------------------

func (env *SpecEnv) expr(e ast.Expr) SVal {
	vc := env.vc()
	switch x := e.(type) {
	case *ast.ParenExpr:
		return env.expr(x.X)
	case *ast.Ident:
		return env.ident(x.Name)
	case *ast.BasicLit:
		switch x.Kind {
		case token.INT:
			n, ok := new(bigInt).SetString(x.Value, 0)
			if !ok {
				specFail("bad int literal %s", x.Value)
			}
			return sInt(bigTerm(n))
		case token.CHAR:
			r, _, _, err := strconv.UnquoteChar(x.Value[1:len(x.Value)-1], '\'')
			if err != nil {
				specFail("bad char literal %s", x.Value)
			}
			return sInt(itoa(int64(r)))
		case token.STRING:
			s, err := strconv.Unquote(x.Value)
			if err != nil {
				specFail("bad string literal")
			}
			return fromVal(vc.stringConst(s, nil))
		}
		specFail("literal %s", x.Value)
	case *ast.UnaryExpr:
		v := env.expr(x.X)
		switch x.Op {
		case token.NOT:
			return sBool(not(v.t()))
		case token.SUB:
			return sInt(sx("-", "0", v.t()))
		case token.XOR:
			if v.T == nil || !isInteger(v.T) {
				specFail("^ needs a typed integer operand")
			}
			if isUnsigned(v.T) {
				return SVal{T: v.T, C: []Term{sx("-", bigTerm(new(bigInt).Sub(pow2(intBits(v.T)), bigOne)), v.t())}}
			}
			return SVal{T: v.T, C: []Term{sx("-", "(- 1)", v.t())}}
		case token.AND:
			// &x.f : place
			return env.addrOf(x.X)
		}
		specFail("unary %s", x.Op)
	case *ast.StarExpr:
		v := env.expr(x.X)
		pl := vc.placeOf(v.val())
		return env.loaded(vc.load(pl, env.state()))
	case *ast.BinaryExpr:
		return env.binary(x)
	case *ast.SelectorExpr:
		return env.selector(x)
	case *ast.IndexExpr:
		return env.index(x)
	case *ast.SliceExpr:
		return env.sliceExpr(x)
	case *ast.CallExpr:
		return env.callExpr(x)
	case *ast.CompositeLit:
		return env.composite(x)
	}
	specFail("unsupported expression %T", e)
	return SVal{}
}

func (env *SpecEnv) addrOf(e ast.Expr) SVal {
	pl := env.place(e)
	v := env.vc().ptrVal(pl)
	return SVal{T: v.T, C: v.C, Pl: v.Pl}
}

// place evaluates an lvalue expression to a place.
func (env *SpecEnv) place(e ast.Expr) *Place {
	vc := env.vc()
	switch x := e.(type) {
	case *ast.ParenExpr:
		return env.place(x.X)
	case *ast.SelectorExpr:
		var base *Place
		// x.X may be a pointer value or itself a place
		bv, ok := env.tryExpr(x.X)
		if ok && bv.T != nil {
			if _, isPtr := bv.T.Underlying().(*types.Pointer); isPtr {
				base = vc.placeOf(bv.val())
			}
		}
		if base == nil {
			base = env.place(x.X)
		}
		stt, ok := base.Cur.Underlying().(*types.Struct)
		if !ok {
			specFail("selector .%s on non-struct %s", x.Sel.Name, base.Cur)
		}
		for i := 0; i < stt.NumFields(); i++ {
			if stt.Field(i).Name() == x.Sel.Name {
				return &Place{Root: base.Root, Addr: base.Addr, Path: joinPath(base.Path, x.Sel.Name), Cur: stt.Field(i).Type(), Local: base.Local}
			}
		}
		// promoted through embedded fields
		for i := 0; i < stt.NumFields(); i++ {
			f := stt.Field(i)
			if f.Embedded() {
				if es, ok := f.Type().Underlying().(*types.Struct); ok {
					for j := 0; j < es.NumFields(); j++ {
						if es.Field(j).Name() == x.Sel.Name {
							return &Place{Root: base.Root, Addr: base.Addr, Path: joinPath(joinPath(base.Path, f.Name()), x.Sel.Name), Cur: es.Field(j).Type(), Local: base.Local}
						}
					}
				}
			}
		}
		specFail("no field %s in %s", x.Sel.Name, base.Cur)
	case *ast.StarExpr:
		v := env.expr(x.X)
		return vc.placeOf(v.val())
	case *ast.IndexExpr:
		bv := env.expr(x.X)
		idx := env.expr(x.Index).t()
		switch u := bv.T.Underlying().(type) {
		case *types.Slice:
			return &Place{Root: u.Elem(), Addr: adr(bv.C[0], idx), Cur: u.Elem()}
		case *types.Pointer:
			if at, ok := u.Elem().Underlying().(*types.Array); ok {
				pl := vc.placeOf(bv.val())
				return &Place{Root: at.Elem(), Addr: adr(env.fr.elemBase(pl), idx), Cur: at.Elem()}
			}
		}
		specFail("index place on %s", bv.T)
	case *ast.Ident:
		v := env.ident(x.Name)
		if v.Pl != nil {
			return v.Pl
		}
		if v.T != nil {
			if _, ok := v.T.Underlying().(*types.Pointer); ok {
				specFail("identifier %s is a pointer, use *%s", x.Name, x.Name)
			}
		}
		specFail("identifier %s is not addressable in a contract", x.Name)
	}
	specFail("not an lvalue: %T", e)
	return nil
}

func (env *SpecEnv) tryPlace(e ast.Expr) (pl *Place, ok bool) {
	defer func() {
		if r := recover(); r != nil {
			if _, isSpec := r.(specErr); isSpec {
				ok = false
				return
			}
			if _, isUnsup := r.(unsupported); isUnsup {
				ok = false
				return
			}
			panic(r)
		}
	}()
	return env.place(e), true
}

func (env *SpecEnv) tryExpr(e ast.Expr) (v SVal, ok bool) {
	defer func() {
		if r := recover(); r != nil {
			if _, isSpec := r.(specErr); isSpec {
				ok = false
				return
			}
			panic(r)
		}
	}()
	return env.expr(e), true
}

func (env *SpecEnv) selector(x *ast.SelectorExpr) SVal {
	vc := env.vc()
	// package-qualified constant
	if id, ok := x.X.(*ast.Ident); ok {
		if _, isBound := env.bound[id.Name]; !isBound {
			if _, isParam := env.params[id.Name]; !isParam {
				if pkg := vc.eng.importedPkg(env.fn, id.Name); pkg != nil {
					obj := pkg.Scope().Lookup(x.Sel.Name)
					if obj == nil {
						specFail("%s.%s not found", id.Name, x.Sel.Name)
					}
					return env.object(obj)
				}
			}
		}
	}
	// addressable selector chains (p.a.b.c) are read through their place
	if pl, ok := env.tryPlace(x); ok {
		if _, isArr := pl.Cur.Underlying().(*types.Array); isArr {
			v := vc.ptrVal(pl)
			return SVal{T: v.T, C: v.C, Pl: v.Pl}
		}
		if !hasEmbeddedArray(pl.Cur) {
			return env.loaded(vc.load(pl, env.state()))
		}
	}
	bv := env.expr(x.X)
	if bv.T == nil {
		specFail("selector on untyped value")
	}
	if _, isPtr := bv.T.Underlying().(*types.Pointer); isPtr {
		pl := env.place(x)
		if _, isArr := pl.Cur.Underlying().(*types.Array); isArr {
			// arrays are referred to by pointer
			v := vc.ptrVal(pl)
			return SVal{T: v.T, C: v.C, Pl: v.Pl}
		}
		return env.loaded(vc.load(pl, env.state()))
	}
	if stt, isStruct := bv.T.Underlying().(*types.Struct); isStruct {
		for i := 0; i < stt.NumFields(); i++ {
			if stt.Field(i).Name() == x.Sel.Name {
				return fromVal(fieldOf(bv.val(), i))
			}
		}
	}
	specFail("cannot select .%s on %s", x.Sel.Name, bv.T)
	return SVal{}
}

func (env *SpecEnv) index(x *ast.IndexExpr) SVal {
	vc := env.vc()
	// ghost arrays
	if id, ok := x.X.(*ast.Ident); ok && strings.HasPrefix(id.Name, "ghost_") {
		g := "#" + id.Name[6:]
		arr := vc.get(env.state(), g)
		return sInt(vc.sel(arr, env.expr(x.Index).t()))
	}
	bv := env.expr(x.X)
	idx := env.expr(x.Index).t()
	if bv.T == nil {
		specFail("index on untyped value")
	}
	switch u := bv.T.Underlying().(type) {
	case *types.Slice:
		pl := &Place{Root: u.Elem(), Addr: adr(bv.C[0], idx), Cur: u.Elem()}
		return env.loaded(vc.load(pl, env.state()))
	case *types.Basic:
		if isString(bv.T) {
			vc.regFam("E$uint8", "Int")
			return SVal{T: types.Typ[types.Uint8], C: []Term{vc.sel(vc.get(env.state(), "E$uint8"), adr(bv.C[0], idx))}}
		}
	case *types.Pointer:
		if at, ok := u.Elem().Underlying().(*types.Array); ok {
			pl := vc.placeOf(bv.val())
			ep := &Place{Root: at.Elem(), Addr: adr(env.fr.elemBase(pl), idx), Cur: at.Elem()}
			return fromVal(vc.load(ep, env.state()))
		}
	}
	specFail("index on %s", bv.T)
	return SVal{}
}

func (env *SpecEnv) sliceExpr(x *ast.SliceExpr) SVal {
	vc := env.vc()
	bv := env.expr(x.X)
	var arr, ln, cp Term
	isStr := false
	switch u := bv.T.Underlying().(type) {
	case *types.Slice:
		arr, ln, cp = bv.C[0], bv.C[1], bv.C[2]
	case *types.Basic:
		isStr = true
		arr, ln, cp = bv.C[0], bv.C[1], bv.C[1]
	case *types.Pointer:
		at, ok := u.Elem().Underlying().(*types.Array)
		if !ok {
			specFail("slice of %s", bv.T)
		}
		pl := vc.placeOf(bv.val())
		arr, ln, cp = env.fr.elemBase(pl), itoa(at.Len()), itoa(at.Len())
		bv.T = types.NewSlice(at.Elem())
	default:
		specFail("slice of %s", bv.T)
	}
	lo, hi := Term("0"), ln
	if x.Low != nil {
		lo = env.expr(x.Low).t()
	}
	if x.High != nil {
		hi = env.expr(x.High).t()
	}
	if isStr {
		return SVal{T: bv.T, C: []Term{adr(arr, lo), sub(hi, lo)}}
	}
	return SVal{T: bv.T, C: []Term{adr(arr, lo), sub(hi, lo), sub(cp, lo)}}
}

func (env *SpecEnv) composite(x *ast.CompositeLit) SVal {
	t := env.typeOf(x.Type)
	stt, ok := t.Underlying().(*types.Struct)
	if !ok {
		specFail("composite literal of %s", t)
	}
	res := SVal{T: t}
	if len(x.Elts) != stt.NumFields() {
		specFail("composite literal must list all fields positionally")
	}
	for i, el := range x.Elts {
		v := env.expr(el)
		v = env.coerce(v, stt.Field(i).Type())
		res.C = append(res.C, v.C...)
	}
	return res
}

func (env *SpecEnv) coerce(v SVal, t types.Type) SVal {
	if v.Nil {
		z := env.vc().zeroVal(t)
		return SVal{T: t, C: z.C}
	}
	if v.T == nil {
		return SVal{T: t, C: v.C, Bool: v.Bool}
	}
	return v
}

func (env *SpecEnv) typeOf(e ast.Expr) types.Type {
	switch x := e.(type) {
	case *ast.Ident:
		if obj := types.Universe.Lookup(x.Name); obj != nil {
			if tn, ok := obj.(*types.TypeName); ok {
				return tn.Type()
			}
		}
		var scope *types.Scope
		if env.fn.Pkg != nil {
			scope = env.fn.Pkg.Pkg.Scope()
		} else if p := env.vc().eng.pkgOfSynthetic(env.fn); p != nil {
			scope = p.Pkg.Scope()
		}
		if scope != nil {
			if obj := scope.Lookup(x.Name); obj != nil {
				if tn, ok := obj.(*types.TypeName); ok {
					return tn.Type()
				}
			}
		}
	case *ast.SelectorExpr:
		if id, ok := x.X.(*ast.Ident); ok {
			if pkg := env.vc().eng.importedPkg(env.fn, id.Name); pkg != nil {
				if obj := pkg.Scope().Lookup(x.Sel.Name); obj != nil {
					if tn, ok := obj.(*types.TypeName); ok {
						return tn.Type()
					}
				}
			}
		}
	case *ast.StarExpr:
		if t := env.typeOf(x.X); t != nil {
			return types.NewPointer(t)
		}
	case *ast.ParenExpr:
		return env.typeOf(x.X)
	case *ast.ArrayType:
		if x.Len == nil {
			if t := env.typeOf(x.Elt); t != nil {
				return types.NewSlice(t)
			}
		}
	case *ast.InterfaceType:
		if x.Methods == nil || len(x.Methods.List) == 0 {
			return types.NewInterfaceType(nil, nil)
		}
	case *ast.MapType:
		k, v := env.typeOf(x.Key), env.typeOf(x.Value)
		if k != nil && v != nil {
			return types.NewMap(k, v)
		}
	}
	return nil
}

func (env *SpecEnv) binary(x *ast.BinaryExpr) SVal {
	vc := env.vc()
	switch x.Op {
	case token.LAND:
		return sBool(and(env.expr(x.X).t(), env.expr(x.Y).t()))
	case token.LOR:
		return sBool(or(env.expr(x.X).t(), env.expr(x.Y).t()))
	}
	a, b := env.expr(x.X), env.expr(x.Y)
	switch x.Op {
	case token.EQL, token.NEQ:
		e := env.equal(a, b)
		if x.Op == token.NEQ {
			e = not(e)
		}
		return sBool(e)
	case token.LSS:
		return sBool(sx("<", a.t(), b.t()))
	case token.LEQ:
		return sBool(sx("<=", a.t(), b.t()))
	case token.GTR:
		return sBool(sx(">", a.t(), b.t()))
	case token.GEQ:
		return sBool(sx(">=", a.t(), b.t()))
	case token.ADD:
		return sInt(sx("+", a.t(), b.t()))
	case token.SUB:
		return sInt(sx("-", a.t(), b.t()))
	case token.MUL:
		return sInt(sx("*", a.t(), b.t()))
	case token.QUO:
		return sInt(sx("div", a.t(), b.t()))
	case token.REM:
		return sInt(sx("mod", a.t(), b.t()))
	case token.SHL, token.SHR:
		k, ok := litInt(b.t())
		if !ok {
			specFail("shift amount must be a literal in contracts")
		}
		if x.Op == token.SHL {
			return sInt(sx("*", a.t(), pow2T(uint(k))))
		}
		return sInt(sx("div", a.t(), pow2T(uint(k))))
	case token.AND, token.OR, token.XOR, token.AND_NOT:
		// bit operations on non-negative mathematical integers; one operand
		// must be a literal constant, or both at most 16 bits wide by type
		bits := uint(64)
		t := a.T
		if t == nil {
			t = b.T
		}
		if t != nil && isInteger(t) {
			bits = intBits(t)
		}
		var ca, cb *bigInt
		if n, ok := new(bigInt).SetString(a.t(), 10); ok {
			ca = n
		}
		if n, ok := new(bigInt).SetString(b.t(), 10); ok {
			cb = n
		}
		ty := types.Type(types.Typ[types.Uint64])
		switch bits {
		case 8:
			ty = types.Typ[types.Uint8]
		case 16:
			ty = types.Typ[types.Uint16]
		case 32:
			ty = types.Typ[types.Uint32]
		}
		if ca == nil && cb == nil && bits > 16 {
			specFail("bit operation needs a constant operand or operands of at most 16 bits")
		}
		return SVal{T: t, C: []Term{env.fr.bitop(x.Op, ty, a.t(), b.t(), ca, cb)}}
	}
	_ = vc
	specFail("binary %s", x.Op)
	return SVal{}
}

func (env *SpecEnv) equal(a, b SVal) Term {
	vc := env.vc()
	if a.Nil && !b.Nil {
		a, b = b, a
	}
	if b.Nil {
		if a.Nil {
			return "true"
		}
		// nil-ness is decided by the first component (arr / typ / ref)
		return eq(a.C[0], "0")
	}
	if a.Bool || b.Bool {
		return eq(a.t(), b.t())
	}
	t := a.T
	if t == nil {
		t = b.T
	}
	if t != nil && isString(t) && len(a.C) == 2 && len(b.C) == 2 {
		return env.fr.stringEq(a.val(), b.val(), env.state())
	}
	if len(a.C) != len(b.C) {
		specFail("== on values of different shape (%v vs %v)", a.T, b.T)
	}
	if t != nil {
		if _, isSlice := t.Underlying().(*types.Slice); isSlice {
			specFail("== on slices: use bytesEq / sameSlice")
		}
	}
	_ = vc
	var cs []Term
	for i := range a.C {
		cs = append(cs, eq(a.C[i], b.C[i]))
	}
	return and(cs...)
}

// ---------------------------------------------------------------------------
// calls in contracts

func (env *SpecEnv) callExpr(x *ast.CallExpr) SVal {
	vc := env.vc()
	// conversions
	if t := env.typeOf(x.Fun); t != nil && len(x.Args) == 1 {
		v := env.expr(x.Args[0])
		if isInteger(t) {
			if v.T != nil && isFloat(v.T) {
				specFail("float to int conversion in contract")
			}
			return SVal{T: t, C: []Term{wrap(t, v.t())}}
		}
		if isFloat(t) || isBool(t) {
			return SVal{T: t, C: v.C, Bool: v.Bool}
		}
		if v.Nil {
			return env.coerce(v, t)
		}
		return SVal{T: t, C: v.C, Pl: v.Pl}
	}
	name := ""
	switch f := x.Fun.(type) {
	case *ast.Ident:
		name = f.Name
	case *ast.SelectorExpr:
		if id, ok := f.X.(*ast.Ident); ok {
			name = id.Name + "." + f.Sel.Name
		}
	}
	arg := func(i int) SVal { return env.expr(x.Args[i]) }
	switch name {
	case "old":
		saved, savedP := env.inOld, env.inPrev
		env.inOld, env.inPrev = true, false
		v := env.expr(x.Args[0])
		env.inOld, env.inPrev = saved, savedP
		return v
	case "prev":
		// prev(e): e at the head of the current loop iteration (loop step clauses only)
		if env.prevSt == nil {
			specFail("prev() outside a loop step clause")
		}
		saved, savedO := env.inPrev, env.inOld
		env.inPrev, env.inOld = true, false
		v := env.expr(x.Args[0])
		env.inPrev, env.inOld = saved, savedO
		return v
	case "len":
		v := arg(0)
		if v.T == nil {
			specFail("len of untyped")
		}
		switch u := v.T.Underlying().(type) {
		case *types.Slice, *types.Basic:
			return sInt(v.C[1])
		case *types.Pointer:
			if at, ok := u.Elem().Underlying().(*types.Array); ok {
				return sInt(itoa(at.Len()))
			}
		case *types.Map:
			return sInt(env.fr.mapLenTerm(v.val(), env.state()))
		}
		specFail("len of %s", v.T)
	case "cap":
		v := arg(0)
		return sInt(v.C[2])
	case "addr":
		// address of element 0 of a slice / string, or of a pointer
		v := arg(0)
		return sInt(v.C[0])
	case "implies":
		return sBool(implies(arg(0).t(), arg(1).t()))
	case "iff":
		return sBool(eq(arg(0).t(), arg(1).t()))
	case "ite":
		c := arg(0).t()
		a, b := arg(1), arg(2)
		if len(a.C) != len(b.C) {
			specFail("ite branches differ in shape")
		}
		r := SVal{T: a.T, Bool: a.Bool}
		for i := range a.C {
			r.C = append(r.C, ite(c, a.C[i], b.C[i]))
		}
		return r
	case "forall", "exists":
		id, ok := x.Args[0].(*ast.Ident)
		if !ok || len(x.Args) != 4 {
			specFail("%s(k, lo, hi, body)", name)
		}
		lo, hi := arg(1).t(), arg(2).t()
		vc.nfresh++
		bv := fmt.Sprintf("|%s!%d|", id.Name, vc.nfresh)
		saved, had := env.bound[id.Name]
		env.bound[id.Name] = sInt(bv)
		env.qdepth++
		body := env.expr(x.Args[3]).t()
		env.qdepth--
		if had {
			env.bound[id.Name] = saved
		} else {
			delete(env.bound, id.Name)
		}
		rng := and(sx("<=", lo, bv), sx("<", bv, hi))
		if name == "forall" {
			if pat := firstSelectWith(body, bv); pat != "" {
				return sBool(fmt.Sprintf("(forall ((%s Int)) (! %s :pattern (%s)))", bv, implies(rng, body), pat))
			}
			return sBool(fmt.Sprintf("(forall ((%s Int)) %s)", bv, implies(rng, body)))
		}
		return sBool(fmt.Sprintf("(exists ((%s Int)) %s)", bv, and(rng, body)))
	case "bytesEq":
		// same length and contents (each side in its own state if wrapped in old)
		a, b := arg(0), arg(1)
		return sBool(env.seqEq(x.Args[0], x.Args[1], a, b))
	case "sameSlice":
		a, b := arg(0), arg(1)
		return sBool(and(eq(a.C[0], b.C[0]), eq(a.C[1], b.C[1]), eq(a.C[2], b.C[2])))
	case "nwritten":
		return sInt(sx("-", vc.get(env.cur, "#outlen"), vc.get(env.old, "#outlen")))
	case "written":
		// k-th byte written by this call
		return sInt(vc.sel(vc.get(env.cur, "#out"), add(vc.get(env.old, "#outlen"), arg(0).t())))
	case "wfailed":
		return sBool(sx(">", vc.get(env.cur, "#wfails"), vc.get(env.old, "#wfails")))
	case "nevents":
		return sInt(sx("-", vc.get(env.cur, "#evn"), vc.get(env.old, "#evn")))
	case "evkind", "evint", "evaux", "evlen":
		g := map[string]string{"evkind": "#evk", "evint": "#eva", "evaux": "#evb", "evlen": "#evl"}[name]
		return sInt(vc.sel(vc.get(env.cur, g), add(vc.get(env.old, "#evn"), arg(0).t())))
	case "evbyte":
		// j-th byte of the string payload of the k-th event of this call
		return sInt(sel(vc.sel(vc.get(env.cur, "#evc"), add(vc.get(env.old, "#evn"), arg(0).t())), arg(1).t()))
	case "fresh":
		// allocated by this call
		v := arg(0)
		return sBool(sx(">=", v.C[0], vc.get(env.old, "$alloc")))
	case "allocatedBefore":
		v := arg(0)
		return sBool(sx("<", v.C[0], vc.get(env.old, "$alloc")))
	case "disjoint":
		a, b := arg(0), arg(1)
		// a map argument stands for the memory holding the string / slice data
		// of its keys and values: the interval [maplo(m), maphi(m))
		mapExt := func(v SVal) SVal {
			if v.T != nil {
				if _, ok := v.T.Underlying().(*types.Map); ok {
					lo, hi := sx("maplo", v.C[0]), sx("maphi", v.C[0])
					return SVal{T: types.NewSlice(types.Typ[types.Uint8]), C: []Term{lo, sx("-", hi, lo), sx("-", hi, lo)}}
				}
			}
			return v
		}
		a, b = mapExt(a), mapExt(b)
		alen, blen := env.extent(a), env.extent(b)
		// an empty extent (nil slice) is disjoint from everything
		return sBool(or(sx("<=", alen, "0"), sx("<=", blen, "0"), sx("<=", sx("+", a.C[0], alen), b.C[0]), sx("<=", sx("+", b.C[0], blen), a.C[0])))
	case "loadAs":
		// loadAs(T, p): the T stored at the address held in the (unsafe) pointer p
		tid, ok := x.Args[0].(*ast.Ident)
		if !ok {
			specFail("loadAs(T, p): T must be a basic type name")
		}
		obj := types.Universe.Lookup(tid.Name)
		tn, ok := obj.(*types.TypeName)
		if !ok {
			specFail("loadAs: unknown basic type %s", tid.Name)
		}
		pv := arg(1)
		var cs []Term
		for _, l := range leaves(tn.Type()) {
			fam := family(tn.Type(), l.key())
			vc.regFam(fam, l.Sort)
			cs = append(cs, vc.sel(vc.get(env.state(), fam), pv.C[0]))
		}
		return SVal{T: tn.Type(), C: cs}
	case "sliceAt":
		// sliceAt(T, p): the []T stored at the address held in the (unsafe) pointer p
		tid, ok := x.Args[0].(*ast.Ident)
		if !ok {
			specFail("sliceAt(T, p): T must be a basic type name")
		}
		tn, ok := types.Universe.Lookup(tid.Name).(*types.TypeName)
		if !ok {
			specFail("sliceAt: unknown basic type %s", tid.Name)
		}
		st := types.NewSlice(tn.Type())
		pv := arg(1)
		var cs []Term
		for _, l := range leaves(st) {
			fam := family(st, l.key())
			vc.regFam(fam, l.Sort)
			cs = append(cs, vc.sel(vc.get(env.state(), fam), pv.C[0]))
		}
		return SVal{T: st, C: cs}
	case "ifaceAt":
		// ifaceAt(p): the interface{} value stored at the address held in p
		pv := arg(0)
		it := types.NewInterfaceType(nil, nil)
		var cs []Term
		for _, l := range leaves(it) {
			fam := family(it, l.key())
			vc.regFam(fam, l.Sort)
			cs = append(cs, vc.sel(vc.get(env.state(), fam), pv.C[0]))
		}
		return SVal{T: it, C: cs}
	case "boxed":
		// boxed(i): the scalar held by the interface value i (meaningful together with typeIs)
		iv := arg(0)
		if len(iv.C) != 2 {
			specFail("boxed needs an interface value")
		}
		return sInt(iv.C[1])
	case "holdsAt":
		// holdsAt(i, T, p): the interface value i holds a T (dynamic type exactly T)
		// whose components are those of the T stored at the address held in p
		iv := arg(0)
		if len(iv.C) != 2 {
			specFail("holdsAt needs an interface value")
		}
		t := env.typeOf(x.Args[1])
		if t == nil {
			specFail("holdsAt: unknown type")
		}
		pv := arg(2)
		ls := leaves(t)
		cj := []Term{eq(iv.C[0], itoa(int64(vc.eng.typeID(t))))}
		for k, l := range ls {
			fam := family(t, l.key())
			vc.regFam(fam, l.Sort)
			stored := vc.sel(vc.get(env.state(), fam), pv.C[0])
			var comp Term
			if len(ls) == 1 {
				comp = iv.C[1]
				if l.Sort == "Bool" {
					comp = eq(iv.C[1], "1")
				}
			} else {
				g := vc.declareFun(fmt.Sprintf("unbox$%s$%d", typeKey(t), k), []string{"Int"}, l.Sort)
				comp = sx(g, iv.C[1])
			}
			cj = append(cj, eq(comp, stored))
		}
		return sBool(and(cj...))
	case "inrange":
		// inrange(x, lo, hi): lo <= x < hi
		return sBool(and(sx("<=", arg(1).t(), arg(0).t()), sx("<", arg(0).t(), arg(2).t())))
	case "isArrayStart":
		// for sweeps over On{Array,Object}{Start,Finished}
		return sBool(map[bool]Term{true: "true", false: "false"}[strings.Contains(env.fn.Name(), "Array")])
	case "typeIs":
		// typeIs(ifaceValue, T)
		v := arg(0)
		t := env.typeOf(x.Args[1])
		if t == nil {
			specFail("typeIs: unknown type")
		}
		return sBool(eq(v.C[0], itoa(int64(vc.eng.typeID(t)))))
	}
	mc, ok := env.macros[name]
	if !ok {
		if dm := vc.eng.contracts.defines[vc.eng.pkgPathOf(env.fn)]; dm != nil {
			mc, ok = dm[name]
		}
	}
	if ok {
		if len(x.Args) != len(mc.Params) {
			specFail("macro %s expects %d arguments", name, len(mc.Params))
		}
		saved := map[string]SVal{}
		had := map[string]bool{}
		var vals []SVal
		for i := range x.Args {
			vals = append(vals, arg(i))
		}
		for i, pn := range mc.Params {
			saved[pn], had[pn] = env.bound[pn]
			env.bound[pn] = vals[i]
		}
		r := env.eval(mc.Expr)
		for _, pn := range mc.Params {
			if had[pn] {
				env.bound[pn] = saved[pn]
			} else {
				delete(env.bound, pn)
			}
		}
		return r
	}
	// spec functions from the prelude
	if sf, ok := vc.eng.specFuncs[name]; ok {
		var ts []Term
		for i := range x.Args {
			if id, ok := x.Args[i].(*ast.Ident); ok && strings.HasPrefix(id.Name, "written_") {
				var n int
				fmt.Sscanf(id.Name[8:], "%d", &n)
				for k := 0; k < n; k++ {
					ts = append(ts, vc.sel(vc.get(env.cur, "#out"), add(vc.get(env.old, "#outlen"), itoa(int64(k)))))
				}
				continue
			}
			// wr(N, off): the N bytes written by this call starting at offset off
			if ce, ok := x.Args[i].(*ast.CallExpr); ok {
				if id, ok := ce.Fun.(*ast.Ident); ok && id.Name == "wr" && len(ce.Args) == 2 {
					n, okn := litInt(env.expr(ce.Args[0]).t())
					if !okn {
						specFail("wr(N, off): N must be a literal")
					}
					off := env.expr(ce.Args[1]).t()
					for k := int64(0); k < n; k++ {
						ts = append(ts, vc.sel(vc.get(env.cur, "#out"), add(add(vc.get(env.old, "#outlen"), off), itoa(k))))
					}
					continue
				}
			}
			ts = append(ts, arg(i).t())
		}
		if len(ts) != len(sf.args) {
			specFail("%s expects %d arguments, got %d", name, len(sf.args), len(ts))
		}
		t := q(name)
		if len(ts) > 0 {
			t = sx(q(name), ts...)
		}
		if sf.ret == "Bool" {
			return sBool(t)
		}
		return sInt(t)
	}
	// byte-sequence spec functions: first parameters (heap, addr, len) are
	// filled from a slice/string argument
	if sf, ok := vc.eng.seqFuncs[name]; ok {
		var ts []Term
		for i := range x.Args {
			v := arg(i)
			if v.T != nil && (isString(v.T) || isByteSlice(v.T)) {
				vc.regFam("E$uint8", "Int")
				ts = append(ts, vc.get(env.state(), "E$uint8"), v.C[0], v.C[1])
			} else {
				ts = append(ts, v.t())
			}
		}
		t := sx(q(name), ts...)
		if sf.ret == "Bool" {
			return sBool(t)
		}
		return sInt(t)
	}
	specFail("unknown spec function %q", name)
	return SVal{}
}

func (env *SpecEnv) extent(v SVal) Term {
	if v.T != nil {
		switch u := v.T.Underlying().(type) {
		case *types.Slice:
			return v.C[2]
		case *types.Basic:
			if isString(v.T) {
				return v.C[1]
			}
		case *types.Pointer:
			if at, ok := u.Elem().Underlying().(*types.Array); ok {
				return itoa(at.Len())
			}
		}
	}
	specFail("disjoint needs slices/strings/array pointers")
	return ""
}

// seqEq: content equality of two byte sequences; an argument wrapped in old()
// reads its bytes from the old heap.
func (env *SpecEnv) seqEq(ea, eb ast.Expr, a, b SVal) Term {
	vc := env.vc()
	heapFor := func(e ast.Expr) Term {
		vc.regFam("E$uint8", "Int")
		if c, ok := e.(*ast.CallExpr); ok {
			if id, ok := c.Fun.(*ast.Ident); ok && id.Name == "old" {
				return vc.get(env.old, "E$uint8")
			}
		}
		return vc.get(env.state(), "E$uint8")
	}
	ha, hb := heapFor(ea), heapFor(eb)
	if a.T == nil || b.T == nil {
		specFail("bytesEq needs typed byte sequences")
	}
	for _, pr := range [][2]SVal{{a, b}, {b, a}} {
		if n, ok := litInt(pr[0].C[1]); ok && n <= 64 {
			cs := []Term{eq(a.C[1], b.C[1])}
			for i := int64(0); i < n; i++ {
				cs = append(cs, eq(sel(ha, adr(a.C[0], itoa(i))), sel(hb, adr(b.C[0], itoa(i)))))
			}
			return and(cs...)
		}
	}
	vc.nfresh++
	k := fmt.Sprintf("|k!%d|", vc.nfresh)
	return and(eq(a.C[1], b.C[1]),
		fmt.Sprintf("(forall ((%s Int)) (=> (and (<= 0 %s) (< %s %s)) (= (select %s %s) (select %s %s))))", k, k, k, a.C[1], ha, adr(a.C[0], k), hb, adr(b.C[0], k)))
}

// ---------------------------------------------------------------------------
// assigns

type assignItem struct {
	fam   string
	sort  string
	addr  Term // single address, or
	lo, n Term // region
	ghost bool
}

func (env *SpecEnv) assignItems(cl *Clause) []assignItem {
	vc := env.vc()
	call := cl.Expr.(SpecGo).E.(*ast.CallExpr)
	var items []assignItem
	for _, a := range call.Args {
		if id, ok := a.(*ast.Ident); ok && strings.HasPrefix(id.Name, "ghost_") {
			grp, ok := ghostGroups[id.Name[6:]]
			if !ok {
				grp = []string{"#" + id.Name[6:]}
			}
			for _, g := range grp {
				items = append(items, assignItem{fam: g, ghost: true})
			}
			continue
		}
		// region: x[lo:hi] / x[:]
		if se, ok := a.(*ast.SliceExpr); ok {
			v := env.sliceExpr(se)
			elem := v.T.Underlying().(*types.Slice).Elem()
			for _, l := range leaves(elem) {
				fam := family(elem, l.key())
				vc.regFam(fam, l.Sort)
				items = append(items, assignItem{fam: fam, sort: l.Sort, lo: v.C[0], n: v.C[1]})
			}
			continue
		}
		pl := env.place(a)
		for _, l := range leaves(pl.Cur) {
			fam := vc.famOf(pl, l)
			items = append(items, assignItem{fam: fam, sort: l.Sort, addr: pl.Addr})
		}
		if hasEmbeddedArray(pl.Cur) {
			arrs, _ := embeddedArrays(pl.Root)
			for _, ea := range arrs {
				if pl.Path == "" || ea.Path == pl.Path || strings.HasPrefix(ea.Path, pl.Path+".") {
					for _, l := range leaves(ea.Elem) {
						fam := family(ea.Elem, l.key())
						vc.regFam(fam, l.Sort)
						items = append(items, assignItem{fam: fam, sort: l.Sort, lo: adr(pl.Addr, itoa(ea.Off)), n: itoa(ea.N)})
					}
				}
			}
		}
	}
	return items
}

func (env *SpecEnv) havocAssigns(cl *Clause, st *State) {
	vc := env.vc()
	var gs []string
	for _, it := range env.assignItems(cl) {
		if it.ghost {
			gs = append(gs, it.fam)
		}
	}
	vc.havocGhostSet(st, gs)
	for _, it := range env.assignItems(cl) {
		switch {
		case it.ghost:
		case it.addr != "":
			f := vc.fresh("hv", it.sort)
			vc.set(st, it.fam, store(vc.get(st, it.fam), it.addr, f))
		default:
			old := vc.get(st, it.fam)
			nw := vc.fresh(it.fam+"~r", vc.famSort(it.fam))
			vc.assume(fmt.Sprintf("(forall ((k Int)) (! (=> (or (< k %s) (>= k (+ %s %s))) (= (select %s k) (select %s k))) :pattern ((select %s k))))", it.lo, it.lo, it.n, nw, old, nw))
			st.m[it.fam] = nw
		}
	}
}

// checkAssigns: every pre-existing location outside the declared frame keeps
// its value.  Only checked when the contract has an assigns clause.
func (fr *Frame) checkAssigns(out *State, reach Term) {
	vc := fr.vc
	cls := fr.contract.byKind("assigns")
	if len(cls) == 0 {
		return
	}
	env := &SpecEnv{fr: fr, fn: fr.fn, params: fr.params, cur: fr.entry, old: fr.entry, bound: map[string]SVal{}, lets: map[string]SVal{}}
	env.evalLets(fr.contract, false)
	allowed := map[string][]assignItem{}
	for _, cl := range cls {
		for _, it := range env.assignItems(cl) {
			allowed[it.fam] = append(allowed[it.fam], it)
		}
	}
	var fams []string
	for fam := range out.m {
		fams = append(fams, fam)
	}
	sort.Strings(fams)
	alloc0 := vc.get(fr.entry, "$alloc")
	for _, fam := range fams {
		if fam == "$alloc" || strings.HasPrefix(fam, "L$") {
			continue
		}
		before, after := vc.get(fr.entry, fam), out.m[fam]
		if before == after {
			continue
		}
		cl0 := cls[0]
		if _, isGhost := ghostSorts[fam]; isGhost {
			if len(allowed[fam]) > 0 {
				continue
			}
			vc.oblige("assigns", "ghost:"+fam, reach, eq(before, after), fr.clauseProps(cl0), cl0.Aux, vc.pos(fr.fn.Pos()))
			continue
		}
		var outside []Term
		outside = append(outside, sx("<", "r", alloc0), sx("<=", "0", "r"))
		for _, it := range allowed[fam] {
			if it.addr != "" {
				outside = append(outside, not(eq("r", it.addr)))
			} else {
				outside = append(outside, or(sx("<", "r", it.lo), sx(">=", "r", sx("+", it.lo, it.n))))
			}
		}
		cond := fmt.Sprintf("(forall ((r Int)) (=> %s (= (select %s r) (select %s r))))", and(outside...), after, before)
		vc.oblige("assigns", "frame:"+fam, reach, cond, fr.clauseProps(cl0), cl0.Aux, vc.pos(fr.fn.Pos()))
	}
}

// firstSelectWith returns the left-most (outermost) select term of t that
// mentions the bound variable bv: the trigger for a contract quantifier.
func firstSelectWith(t, bv string) string {
	for i := 0; i+8 <= len(t); i++ {
		if !strings.HasPrefix(t[i:], "(select ") {
			continue
		}
		depth := 0
		j := i
		inBar := false
		for ; j < len(t); j++ {
			if t[j] == '|' {
				inBar = !inBar
			}
			if inBar {
				continue
			}
			if t[j] == '(' {
				depth++
			} else if t[j] == ')' {
				depth--
				if depth == 0 {
					break
				}
			}
		}
		if j >= len(t) {
			return ""
		}
		sub := t[i : j+1]
		if strings.Contains(sub, bv) && !strings.Contains(sub, "(ite ") {
			return sub
		}
	}
	return ""
}
