package main

// VC container: declarations, guarded assumptions, named obligations, and the
// symbolic heap state.

import (
	"fmt"
	"go/token"
	"go/types"
	"sort"
	"strings"

	"golang.org/x/tools/go/ssa"
)

type Obligation struct {
	Name     string
	Kind     string // bounds | slice | nil | div0 | panic | ensures | requires | inv-init | inv-step | decreases | assigns | make-size | typeassert | protocol | cover | canary
	Fn       string
	Site     string
	Props    []string
	Aux      bool
	Guard    Term
	Cond     Term
	nAsserts int // number of vc.asserts visible to this obligation
	nDecls   int
	Pos      token.Position
	MustFail bool // cover / canary: expected sat
	Inputs   []string
	// result
	Result  string // proved | refuted | undecided | (covers) reachable | unreachable
	Solver  string
	Time    float64
	Output  string
	Model   string
	SMTSize int
}

type VC struct {
	eng      *Engine
	fnName   string
	decls    []string
	declared map[string]string
	asserts  []string
	obligs   []*Obligation
	nfresh   int
	siteCnt  map[string]int
	strConst map[string]int
	notes    []string
	imprecise map[string]bool
	inputs   []string // names of input terms worth printing from a model
	calledByContract map[*ssa.Function]bool
	topFn       *ssa.Function
	topContract *Contract
	topVariant  Term
}

func newVC(eng *Engine, fn string) *VC {
	vc := &VC{eng: eng, fnName: fn, declared: map[string]string{}, siteCnt: map[string]int{}, strConst: map[string]int{}, imprecise: map[string]bool{}, calledByContract: map[*ssa.Function]bool{}}
	return vc
}

func q(name string) string {
	if strings.HasPrefix(name, "|") {
		return name
	}
	return "|" + strings.ReplaceAll(name, "|", "!") + "|"
}

func (vc *VC) declare(name, sort string) Term {
	n := q(name)
	if s, ok := vc.declared[n]; ok {
		if s != sort {
			panic(fmt.Sprintf("redeclare %s: %s vs %s", n, s, sort))
		}
		return n
	}
	vc.declared[n] = sort
	vc.decls = append(vc.decls, fmt.Sprintf("(declare-const %s %s)", n, sort))
	return n
}

func (vc *VC) declareFun(name string, args []string, ret string) string {
	n := q(name)
	sig := "(" + strings.Join(args, " ") + ") " + ret
	if s, ok := vc.declared[n]; ok {
		if s != sig {
			panic(fmt.Sprintf("redeclare fun %s", n))
		}
		return n
	}
	vc.declared[n] = sig
	vc.decls = append(vc.decls, fmt.Sprintf("(declare-fun %s %s)", n, sig))
	return n
}

func (vc *VC) fresh(hint, sort string) Term {
	vc.nfresh++
	return vc.declare(fmt.Sprintf("%s!%d", hint, vc.nfresh), sort)
}

// define introduces a named constant equal to term (keeps formulas shallow).
func (vc *VC) define(hint, sort string, t Term) Term {
	if len(t) < 24 || !strings.HasPrefix(t, "(") {
		return t
	}
	n := vc.fresh(hint, sort)
	vc.asserts = append(vc.asserts, fmt.Sprintf("(assert (= %s %s))", n, t))
	return n
}

func (vc *VC) assume(t Term) {
	if t == "true" {
		return
	}
	vc.asserts = append(vc.asserts, "(assert "+t+")")
}

func (vc *VC) assumeIf(guard, t Term) { vc.assume(implies(guard, t)) }

func (vc *VC) note(format string, a ...interface{}) {
	vc.notes = append(vc.notes, fmt.Sprintf(format, a...))
}

func (vc *VC) oblige(kind, site string, guard, cond Term, props []string, aux bool, pos token.Position) *Obligation {
	if cond == "true" || guard == "false" {
		// still counted: trivially discharged obligations are recorded so that a
		// clause never silently generates nothing
	}
	key := kind + ":" + site
	vc.siteCnt[key]++
	name := fmt.Sprintf("%s#%s:%s", vc.fnName, kind, site)
	if n := vc.siteCnt[key]; n > 1 {
		name += fmt.Sprintf("#%d", n)
	}
	ob := &Obligation{Name: name, Kind: kind, Fn: vc.fnName, Site: site, Props: props, Aux: aux,
		Guard: guard, Cond: cond, nAsserts: len(vc.asserts), nDecls: len(vc.decls), Pos: pos}
	vc.obligs = append(vc.obligs, ob)
	// assert-then-assume
	vc.assumeIf(guard, cond)
	return ob
}

func (vc *VC) query(ob *Obligation) string {
	var b strings.Builder
	b.WriteString(vc.eng.prelude)
	// all declarations (later ones are harmless) but only the assumptions
	// that precede the obligation
	for _, d := range vc.decls {
		b.WriteString(d)
		b.WriteByte('\n')
	}
	for _, a := range vc.asserts[:ob.nAsserts] {
		b.WriteString(a)
		b.WriteByte('\n')
	}
	if ob.MustFail {
		b.WriteString("(assert " + and(ob.Guard, ob.Cond) + ")\n")
	} else {
		b.WriteString("(assert " + and(ob.Guard, not(ob.Cond)) + ")\n")
	}
	return b.String()
}

// ---------------------------------------------------------------------------
// State: family / ghost variable -> current term.  Absent means the initial
// symbol name@0.

type State struct {
	m map[string]Term
}

func newState() *State { return &State{m: map[string]Term{}} }

func (s *State) clone() *State {
	n := &State{m: make(map[string]Term, len(s.m))}
	for k, v := range s.m {
		n.m[k] = v
	}
	return n
}

var ghostSorts = map[string]string{
	"$alloc":   "Int",
	"#out":     "(Array Int Int)",
	"#outlen":  "Int",
	"#wfails":  "Int",
	"#vfail":   "Bool",
	"#verr#typ": "Int",
	"#verr#val": "Int",
	"#evn":     "Int",
	"#evk":     "(Array Int Int)", // event kind
	"#eva":     "(Array Int Int)", // integer payload / length / bool
	"#evb":     "(Array Int Int)", // base type / second payload
	"#evc":     "(Array Int (Array Int Int))", // string payload: snapshot of the bytes
	"#evl":     "(Array Int Int)",             // string payload: length
	"#in":      "(Array Int Int)",
	"#inpos":   "Int",
	"#inlen":   "Int",
	"#ineof":   "Bool",
	"#rdzero":  "Int",
	"#depth":   "Int",
}

func (vc *VC) famSort(fam string) string {
	if s, ok := ghostSorts[fam]; ok {
		return s
	}
	if s, ok := vc.eng.famSorts[fam]; ok {
		return s
	}
	panic("unknown family sort: " + fam)
}

func (vc *VC) get(s *State, fam string) Term {
	if t, ok := s.m[fam]; ok {
		return t
	}
	return vc.declare(fam+"@0", vc.famSort(fam))
}

func (vc *VC) set(s *State, fam string, t Term) {
	srt := vc.famSort(fam)
	if strings.HasPrefix(t, "(") {
		n := vc.fresh(fam, srt)
		vc.asserts = append(vc.asserts, fmt.Sprintf("(assert (= %s %s))", n, t))
		t = n
	}
	s.m[fam] = t
}

func (vc *VC) regFam(fam, leafSort string) {
	srt := "(Array Int " + leafSort + ")"
	if old, ok := vc.eng.famSorts[fam]; ok && old != srt {
		panic("family sort clash " + fam)
	}
	vc.eng.famSorts[fam] = srt
}

// merge states under edge conditions (conds[i] exclusive).
func (vc *VC) merge(conds []Term, states []*State) *State {
	if len(states) == 1 {
		return states[0].clone()
	}
	keys := map[string]bool{}
	for _, s := range states {
		for k := range s.m {
			keys[k] = true
		}
	}
	var ks []string
	for k := range keys {
		ks = append(ks, k)
	}
	sort.Strings(ks)
	out := newState()
	for _, k := range ks {
		t := vc.get(states[len(states)-1], k)
		same := true
		for i := len(states) - 2; i >= 0; i-- {
			ti := vc.get(states[i], k)
			if ti != t {
				same = false
			}
			t = ite(conds[i], ti, t)
		}
		if same {
			out.m[k] = vc.get(states[0], k)
		} else {
			vc.set(out, k, t)
		}
	}
	return out
}

// havocFam replaces a family by a fresh array that agrees with the old one on
// the read-only (negative) addresses where string constants live.
func (vc *VC) havocFam(s *State, fam string) {
	srt := vc.famSort(fam)
	old := vc.get(s, fam)
	n := vc.fresh(fam+"~h", srt)
	if fam == "E$uint8" {
		vc.assume(fmt.Sprintf("(forall ((k Int)) (! (=> (< k 0) (= (select %s k) (select %s k))) :pattern ((select %s k))))", n, old, n))
	}
	s.m[fam] = n
}

// ---------------------------------------------------------------------------
// Values

type Place struct {
	Root types.Type // object / element type selecting the families
	Addr Term
	Path string // dotted path inside Root
	Cur  types.Type
}

type Val struct {
	T  types.Type
	C  []Term
	Pl *Place
	Fn interface{} // *ssa.Function for statically known function values / closures
	Fv []Val       // closure bindings
}

func (v Val) t() Term {
	if len(v.C) != 1 {
		panic(fmt.Sprintf("value of type %v has %d components", v.T, len(v.C)))
	}
	return v.C[0]
}
