package main

// VC container: declarations, guarded assumptions, named obligations, and the
// symbolic heap state.

import (
	"fmt"
	"go/token"
	"go/types"
	"os"
	"regexp"
	"sort"
	"strings"
	"time"

	"golang.org/x/tools/go/ssa"
)

type Obligation struct {
	Name     string
	Kind     string // bounds | slice | nil | div0 | panic | ensures | requires | inv-init | inv-step | decreases | assigns | make-size | typeassert | protocol | cover | canary
	Fn       string
	Site     string
	Props    []string
	Aux      bool
	Guard    Term
	Cond     Term
	nAsserts int // number of vc.asserts visible to this obligation
	nDecls   int
	Pos      token.Position
	MustFail bool // cover / canary: expected sat
	blk      *ssa.BasicBlock // block of the top-level function in which the obligation arose
	Inputs   []string
	// result
	Result  string // proved | refuted | undecided | (covers) reachable | unreachable
	Solver  string
	Time    float64
	Output  string
	Model   string
	SMTSize int
}

type VC struct {
	eng      *Engine
	fnName   string
	decls    []string
	declared map[string]string
	asserts  []string
	obligs   []*Obligation
	nfresh   int
	siteCnt  map[string]int
	strConst map[string]int
	notes    []string
	imprecise map[string]bool
	inputs   []string // names of input terms worth printing from a model
	calledByContract map[*ssa.Function]bool
	topFn       *ssa.Function
	topContract *Contract
	topVariant  Term
	localSorts  map[string]string
	arrDefs     map[Term]arrDef
	defMemo     map[string]Term
	lastDefined Term
	ainfo       map[int]*assertInfo
	defIdx      map[string][]int
	funDeps     map[string][]string
	nIndexed    int
	nFunIndexed int
	topFrame    *Frame
	assertBlk   []*ssa.BasicBlock
	caseGroups  []caseGroup
	divMemo     map[string][2]Term
	bytes       int
	deadline    time.Time
}

// caseGroup: mutually exclusive, exhaustive conditions (the iteration in which
// an unrolled loop was left); obligations after the loop can be split on them.
type caseGroup struct {
	conds   []Term
	late    bool // only used in a second attempt (append: in place / reallocated)
	nAssert int
	blocks  map[*ssa.BasicBlock]bool
}

func newVC(eng *Engine, fn string) *VC {
	vc := &VC{eng: eng, fnName: fn, declared: map[string]string{}, siteCnt: map[string]int{}, strConst: map[string]int{}, imprecise: map[string]bool{}, calledByContract: map[*ssa.Function]bool{}, localSorts: map[string]string{}}
	return vc
}

func q(name string) string {
	if strings.HasPrefix(name, "|") {
		return name
	}
	return "|" + strings.ReplaceAll(name, "|", "!") + "|"
}

func (vc *VC) declare(name, sort string) Term {
	n := q(name)
	if s, ok := vc.declared[n]; ok {
		if s != sort {
			panic(fmt.Sprintf("redeclare %s: %s vs %s", n, s, sort))
		}
		return n
	}
	vc.declared[n] = sort
	vc.decls = append(vc.decls, fmt.Sprintf("(declare-const %s %s)", n, sort))
	return n
}

func (vc *VC) declareFun(name string, args []string, ret string) string {
	n := q(name)
	sig := "(" + strings.Join(args, " ") + ") " + ret
	if s, ok := vc.declared[n]; ok {
		if s != sig {
			panic(fmt.Sprintf("redeclare fun %s", n))
		}
		return n
	}
	vc.declared[n] = sig
	vc.decls = append(vc.decls, fmt.Sprintf("(declare-fun %s %s)", n, sig))
	return n
}

func (vc *VC) fresh(hint, sort string) Term {
	vc.nfresh++
	return vc.declare(fmt.Sprintf("%s!%d", hint, vc.nfresh), sort)
}

// define introduces a named constant equal to term (keeps formulas shallow).
func (vc *VC) define(hint, sort string, t Term) Term {
	if len(t) < 24 || !strings.HasPrefix(t, "(") {
		return t
	}
	// plain loads stay as they are (syntactic equality matters for merging)
	if strings.HasPrefix(t, "(select |") && strings.Count(t, "(") == 1 {
		return t
	}
	if vc.defMemo == nil {
		vc.defMemo = map[string]Term{}
	}
	if n, ok := vc.defMemo[sort+":"+t]; ok {
		return n
	}
	defer func() { vc.defMemo[sort+":"+t] = vc.lastDefined }()
	n := vc.fresh(hint, sort)
	vc.lastDefined = n
	vc.addAssertGlobal(fmt.Sprintf("(assert (= %s %s))", n, t))
	return n
}

func (vc *VC) addAssert(a string) {
	vc.sizeGuard(len(a))
	vc.asserts = append(vc.asserts, a)
	var b *ssa.BasicBlock
	if vc.topFrame != nil {
		b = vc.topFrame.curBlock
	}
	vc.assertBlk = append(vc.assertBlk, b)
}

// addAssertGlobal: pure definitions are valid on every path.
func (vc *VC) sizeGuard(n int) {
	vc.bytes += n
	if !vc.deadline.IsZero() && len(vc.asserts)%256 == 0 && time.Now().After(vc.deadline) {
		unsup("VC generation takes too long (%d assertions so far): give the callees contracts instead of inlining them", len(vc.asserts))
	}
	if len(vc.asserts) > 60000 || vc.bytes > 40<<20 {
		unsup("VC too large (%d assertions, %d MB): give the callees contracts instead of inlining them", len(vc.asserts), vc.bytes>>20)
	}
}

func (vc *VC) addAssertGlobal(a string) {
	vc.sizeGuard(len(a))
	vc.asserts = append(vc.asserts, a)
	vc.assertBlk = append(vc.assertBlk, nil)
}

func (vc *VC) assume(t Term) {
	if t == "true" {
		return
	}
	vc.addAssert("(assert " + t + ")")
}

func (vc *VC) assumeIf(guard, t Term) { vc.assume(implies(guard, t)) }

func (vc *VC) note(format string, a ...interface{}) {
	vc.notes = append(vc.notes, fmt.Sprintf(format, a...))
}

func (vc *VC) oblige(kind, site string, guard, cond Term, props []string, aux bool, pos token.Position) *Obligation {
	// a conjunction is split into one obligation per conjunct (smaller queries)
	if kind != "canary" && strings.HasPrefix(cond, "(and ") {
		parts := splitTop(cond[5 : len(cond)-1])
		if len(parts) > 1 {
			var last *Obligation
			for i, p := range parts {
				last = vc.oblige(kind, fmt.Sprintf("%s/%d", site, i+1), guard, p, props, aux, pos)
			}
			return last
		}
	}
	// implication with a conjunctive consequent: split the consequent
	if kind != "canary" && strings.HasPrefix(cond, "(=> ") {
		parts := splitTop(cond[4 : len(cond)-1])
		if len(parts) == 2 && strings.HasPrefix(parts[1], "(and ") {
			cs := splitTop(parts[1][5 : len(parts[1])-1])
			if len(cs) > 1 {
				var last *Obligation
				for i, c := range cs {
					last = vc.oblige(kind, fmt.Sprintf("%s/%d", site, i+1), guard, implies(parts[0], c), props, aux, pos)
				}
				return last
			}
		}
	}
	if cond == "true" || guard == "false" {
		// still counted: trivially discharged obligations are recorded so that a
		// clause never silently generates nothing
	}
	key := kind + ":" + site
	vc.siteCnt[key]++
	name := fmt.Sprintf("%s#%s:%s", vc.fnName, kind, site)
	if n := vc.siteCnt[key]; n > 1 {
		name += fmt.Sprintf("#%d", n)
	}
	ob := &Obligation{Name: name, Kind: kind, Fn: vc.fnName, Site: site, Props: props, Aux: aux,
		Guard: guard, Cond: cond, nAsserts: len(vc.asserts), nDecls: len(vc.decls), Pos: pos}
	if vc.topFrame != nil {
		ob.blk = vc.topFrame.curBlock
	}
	vc.obligs = append(vc.obligs, ob)
	// assert-then-assume
	vc.assumeIf(guard, cond)
	return ob
}

var symRe = regexp.MustCompile(`\|[^|]*\|`)
var patRe = regexp.MustCompile(`:pattern \(\(select (\|[^|]*\|)`)
var defRe = regexp.MustCompile(`^\(assert \(= (\|[^|]*\|) `)
var defFunRe = regexp.MustCompile(`^\(define-fun (\|[^|]*\|) `)

type assertInfo struct {
	syms  []string
	qkeys []string // quantified axiom keyed by these array symbols
	def   string   // definitional equality for this symbol
}

func (vc *VC) classify(i int) *assertInfo {
	if vc.ainfo == nil {
		vc.ainfo = map[int]*assertInfo{}
	}
	if ai, ok := vc.ainfo[i]; ok {
		return ai
	}
	a := vc.asserts[i]
	ai := &assertInfo{syms: symRe.FindAllString(a, -1)}
	if strings.Contains(a, "(forall ") {
		for _, m := range patRe.FindAllStringSubmatch(a, -1) {
			ai.qkeys = append(ai.qkeys, m[1])
		}
	} else if m := defRe.FindStringSubmatch(a); m != nil {
		ai.def = m[1]
	}
	vc.ainfo[i] = ai
	return ai
}

// slicedAsserts: backward data-flow closure from the goal.  Any subset of the
// assumptions is sound; quantified array axioms whose array cannot influence
// the goal are the expensive ones and are dropped.
func (vc *VC) slicedAsserts(ob *Obligation) map[int]bool { return vc.slicedAssertsLevel(ob, 1<<30) }

// slicedAssertsLevel limits the closure to maxLevel rounds of expansion.
func (vc *VC) slicedAssertsLevel(ob *Obligation, maxLevel int) map[int]bool {
	needed := map[string]bool{}
	var work, next []string
	add := func(ss []string) {
		for _, s := range ss {
			if !needed[s] {
				needed[s] = true
				next = append(next, s)
			}
		}
	}
	add(symRe.FindAllString(ob.Guard+" "+ob.Cond, -1))
	// index: symbol -> asserts that define it / are keyed by it; define-funs
	if vc.defIdx == nil {
		vc.defIdx = map[string][]int{}
		vc.funDeps = map[string][]string{}
		for _, d := range vc.decls {
			if m := defFunRe.FindStringSubmatch(d); m != nil {
				vc.funDeps[m[1]] = symRe.FindAllString(d[len(m[0]):], -1)
			}
		}
		vc.nIndexed = 0
	}
	for ; vc.nIndexed < len(vc.asserts); vc.nIndexed++ {
		ai := vc.classify(vc.nIndexed)
		if ai.def != "" {
			vc.defIdx[ai.def] = append(vc.defIdx[ai.def], vc.nIndexed)
		}
		for _, k := range ai.qkeys {
			vc.defIdx[k] = append(vc.defIdx[k], vc.nIndexed)
		}
	}
	// define-funs may have been added since the index was built
	for _, d := range vc.decls[vc.nFunIndexed:] {
		if m := defFunRe.FindStringSubmatch(d); m != nil {
			vc.funDeps[m[1]] = symRe.FindAllString(d[len(m[0]):], -1)
		}
	}
	vc.nFunIndexed = len(vc.decls)
	keep := map[int]bool{}
	for level := 0; len(next) > 0 && level < maxLevel; level++ {
		work, next = next, nil
		for _, s := range work {
			if deps, ok := vc.funDeps[s]; ok {
				add(deps)
			}
			for _, i := range vc.defIdx[s] {
				if i < ob.nAsserts && !keep[i] {
					keep[i] = true
					ai := vc.classify(i)
					if len(ai.qkeys) == 0 {
						// plain definitions do not cost a level
						for _, d := range ai.syms {
							if !needed[d] {
								needed[d] = true
								work = append(work, d)
							}
						}
					} else {
						add(ai.syms)
					}
				}
			}
		}
	}
	// every other non-quantified assumption that talks about a needed symbol is
	// kept for its constraining effect (without extending the closure)
	for i := 0; i < ob.nAsserts; i++ {
		if keep[i] {
			continue
		}
		ai := vc.classify(i)
		if len(ai.qkeys) > 0 {
			continue
		}
		if ai.def != "" {
			continue
		}
		for _, s := range ai.syms {
			if needed[s] {
				keep[i] = true
				break
			}
		}
		if len(ai.syms) == 0 {
			keep[i] = true
		}
	}
	return keep
}

func (vc *VC) query(ob *Obligation) string { return vc.queryWith(ob, nil) }

// pathQuery: the assumptions made in blocks that are not on the path are
// vacuous on it and are left out.
func (vc *VC) pathQuery(ob *Obligation, pi pathInfo) string {
	keep := map[int]bool{}
	for i := 0; i < ob.nAsserts; i++ {
		var blk *ssa.BasicBlock
		if i < len(vc.assertBlk) {
			blk = vc.assertBlk[i]
		}
		if blk == nil || pi.blocks[blk] {
			keep[i] = true
		}
	}
	q := vc.queryWith(ob, keep)
	var extra strings.Builder
	for _, l := range pi.lits {
		extra.WriteString("(assert " + l + ")\n")
	}
	i := strings.LastIndex(strings.TrimRight(q, "\n"), "\n(assert ")
	if i < 0 {
		return q + extra.String()
	}
	return q[:i+1] + extra.String() + q[i+1:]
}

func (vc *VC) queryWith(ob *Obligation, keep map[int]bool) string {
	var b strings.Builder
	b.WriteString(vc.eng.prelude)
	// all declarations (later ones are harmless) but only the assumptions
	// that precede the obligation
	for _, d := range vc.decls {
		b.WriteString(d)
		b.WriteByte('\n')
	}
	for i, a := range vc.asserts[:ob.nAsserts] {
		if keep != nil && !keep[i] {
			continue
		}
		b.WriteString(a)
		b.WriteByte('\n')
	}
	if ob.MustFail {
		b.WriteString("(assert " + and(ob.Guard, ob.Cond) + ")\n")
	} else {
		b.WriteString("(assert " + and(ob.Guard, not(ob.Cond)) + ")\n")
	}
	return b.String()
}

// ---------------------------------------------------------------------------
// State: family / ghost variable -> current term.  Absent means the initial
// symbol name@0.

type State struct {
	m map[string]Term
}

func newState() *State { return &State{m: map[string]Term{}} }

func (s *State) clone() *State {
	n := &State{m: make(map[string]Term, len(s.m))}
	for k, v := range s.m {
		n.m[k] = v
	}
	return n
}

var ghostSorts = map[string]string{
	"$alloc":   "Int",
	"#out":     "(Array Int Int)",
	"#outlen":  "Int",
	"#wfails":  "Int",
	"#vfail":   "Bool",
	"#verr#typ": "Int",
	"#verr#val": "Int",
	"#evn":     "Int",
	"#evk":     "(Array Int Int)", // event kind
	"#eva":     "(Array Int Int)", // integer payload / length / bool
	"#evb":     "(Array Int Int)", // base type / second payload
	"#evc":     "(Array Int (Array Int Int))", // string payload: snapshot of the bytes
	"#evl":     "(Array Int Int)",             // string payload: length
	"#in":      "(Array Int Int)",
	"#inpos":   "Int",
	"#inlen":   "Int",
	"#ineof":   "Bool",
	"#rdzero":  "Int",
	"#rdcount": "Int", // number of Read calls so far
	"#rdn":     "Int", // bytes delivered by the most recent Read
	"#depth":   "Int",
}

func (vc *VC) famSort(fam string) string {
	if s, ok := ghostSorts[fam]; ok {
		return s
	}
	if s, ok := vc.localSorts[fam]; ok {
		return s
	}
	if s, ok := vc.eng.famSorts[fam]; ok {
		return s
	}
	if strings.HasPrefix(fam, "IT$") {
		return "Int" // position of a map iterator
	}
	panic("unknown family sort: " + fam)
}

var elemRanges = map[string][2]string{
	"E$int8":   {"(- 128)", "127"},
	"E$int16":  {"(- 32768)", "32767"},
	"E$int32":  {"(- 2147483648)", "2147483647"},
	"E$int64":  {"(- 9223372036854775808)", "9223372036854775807"},
	"E$int":    {"(- 9223372036854775808)", "9223372036854775807"},
	"E$uint16": {"0", "65535"},
	"E$uint32": {"0", "4294967295"},
	"E$uint64": {"0", "18446744073709551615"},
	"E$uint":   {"0", "18446744073709551615"},
}

// byteTyping: every element of a byte heap version is a byte (heap typing
// invariant; needed when contracts quantify over elements).
func (vc *VC) byteTyping(arr Term) {
	vc.addAssertGlobal(fmt.Sprintf("(assert (forall ((a Int)) (! (and (<= 0 (select %s a)) (<= (select %s a) 255)) :pattern ((select %s a)))))", arr, arr, arr))
}

func (vc *VC) get(s *State, fam string) Term {
	if t, ok := s.m[fam]; ok {
		return t
	}
	if fam == "E$uint8" {
		if _, seen := vc.declared[q(fam+"@0")]; !seen {
			n := vc.declare(fam+"@0", vc.famSort(fam))
			vc.byteTyping(n)
			return n
		}
	}
	if rng, ok := elemRanges[fam]; ok {
		// heap typing of the other integer element families (initial version)
		if _, seen := vc.declared[q(fam+"@0")]; !seen {
			n := vc.declare(fam+"@0", vc.famSort(fam))
			vc.addAssertGlobal(fmt.Sprintf("(assert (forall ((a Int)) (! (and (<= %s (select %s a)) (<= (select %s a) %s)) :pattern ((select %s a)))))", rng[0], n, n, rng[1], n))
			return n
		}
	}
	if srt, ok := vc.localSorts[fam]; ok {
		// cells of local variables start out zero
		if srt == "Bool" {
			return "false"
		}
		return "0"
	}
	return vc.declare(fam+"@0", vc.famSort(fam))
}

func (vc *VC) set(s *State, fam string, t Term) {
	srt := vc.famSort(fam)
	if strings.HasPrefix(t, "(") {
		if strings.HasPrefix(srt, "(Array") {
			// arrays are introduced as macros (define-fun): no array equalities for
			// the solver's extensionality reasoning
			vc.nfresh++
			n := q(fmt.Sprintf("%s!%d", fam, vc.nfresh))
			vc.declared[n] = srt
			vc.decls = append(vc.decls, fmt.Sprintf("(define-fun %s () %s %s)", n, srt, t))
			vc.recordArrDef(n, t)
			t = n
		} else {
			n := vc.fresh(fam, srt)
			vc.addAssertGlobal(fmt.Sprintf("(assert (= %s %s))", n, t))
			t = n
		}
	}
	s.m[fam] = t
}

type arrDef struct {
	store          bool
	prev, idx, val Term
	cond, a, b     Term
}

func (vc *VC) recordArrDef(name, t Term) {
	if vc.arrDefs == nil {
		vc.arrDefs = map[Term]arrDef{}
	}
	if strings.HasPrefix(t, "(store ") {
		ps := splitTop(t[7 : len(t)-1])
		if len(ps) == 3 {
			vc.arrDefs[name] = arrDef{store: true, prev: ps[0], idx: ps[1], val: ps[2]}
		}
	} else if strings.HasPrefix(t, "(ite ") {
		ps := splitTop(t[5 : len(t)-1])
		if len(ps) == 3 {
			vc.arrDefs[name] = arrDef{cond: ps[0], a: ps[1], b: ps[2]}
		}
	}
}

// sel builds (select a i), resolving reads over syntactically known store /
// ite chains (keeps terms in a normal form that E-matching can use).
func (vc *VC) sel(a, i Term) Term {
	return vc.selDepth(a, i, 0)
}

func (vc *VC) selDepth(a, i Term, depth int) Term {
	cur := a
	for n := 0; n < 64; n++ {
		// inline nested store terms that were never named
		var d arrDef
		var ok bool
		if strings.HasPrefix(cur, "(store ") {
			ps := splitTop(cur[7 : len(cur)-1])
			if len(ps) == 3 {
				d, ok = arrDef{store: true, prev: ps[0], idx: ps[1], val: ps[2]}, true
			}
		} else if strings.HasPrefix(cur, "(ite ") {
			ps := splitTop(cur[5 : len(cur)-1])
			if len(ps) == 3 {
				d, ok = arrDef{cond: ps[0], a: ps[1], b: ps[2]}, true
			}
		} else {
			d, ok = vc.arrDefs[cur]
		}
		if !ok {
			break
		}
		if d.store {
			if d.idx == i {
				return d.val
			}
			if distinctTerms(d.idx, i) {
				cur = d.prev
				continue
			}
			// read-over-write expansion: select(store(a,j,v), i) = ite(i = j, v, select(a, i));
			// keeps the underlying array visible to E-matching
			if depth < 10 {
				rest := vc.selDepth(d.prev, i, depth+1)
				if len(rest) < 3000 {
					return ite(eq(i, d.idx), d.val, rest)
				}
			}
			break
		}
		if depth < 12 {
			x := vc.selDepth(d.a, i, depth+1)
			y := vc.selDepth(d.b, i, depth+1)
			if x == y {
				return x
			}
			if len(x)+len(y) < 6000 {
				return ite(d.cond, x, y)
			}
		}
		break
	}
	return sx("select", cur, i)
}

// distinctTerms: syntactically provable disequality of two integer terms.
func distinctTerms(x, y Term) bool {
	bx, cx := splitOffset(x)
	by, cy := splitOffset(y)
	return bx == by && cx != cy
}

// splitOffset decomposes base + constant (nested sums are flattened).
func splitOffset(t Term) (Term, int64) {
	if n, ok := litInt(t); ok {
		return "", n
	}
	if strings.HasPrefix(t, "(adr ") {
		ps := splitTop(t[5 : len(t)-1])
		if len(ps) == 2 {
			if n, ok := litInt(ps[1]); ok {
				b, c := splitOffset(ps[0])
				return "adr:" + b, c + n
			}
			return t, 0
		}
	}
	if strings.HasPrefix(t, "(+ ") {
		ps := splitTop(t[3 : len(t)-1])
		if len(ps) == 2 {
			if n, ok := litInt(ps[1]); ok {
				b, c := splitOffset(ps[0])
				return b, c + n
			}
			if n, ok := litInt(ps[0]); ok {
				b, c := splitOffset(ps[1])
				return b, c + n
			}
		}
	}
	return t, 0
}

func (vc *VC) regFam(fam, leafSort string) {
	srt := "(Array Int " + leafSort + ")"
	if old, ok := vc.eng.famSorts[fam]; ok && old != srt {
		panic("family sort clash " + fam)
	}
	vc.eng.famSorts[fam] = srt
}

// merge states under edge conditions (conds[i] exclusive).
func (vc *VC) merge(conds []Term, states []*State) *State {
	if len(states) == 1 {
		return states[0].clone()
	}
	keys := map[string]bool{}
	for _, s := range states {
		for k := range s.m {
			keys[k] = true
		}
	}
	var ks []string
	for k := range keys {
		ks = append(ks, k)
	}
	sort.Strings(ks)
	out := newState()
	for _, k := range ks {
		t := vc.get(states[len(states)-1], k)
		same := true
		for i := len(states) - 2; i >= 0; i-- {
			ti := vc.get(states[i], k)
			if ti != t {
				same = false
			}
			t = ite(conds[i], ti, t)
		}
		if same {
			out.m[k] = vc.get(states[0], k)
		} else {
			vc.set(out, k, t)
		}
	}
	return out
}

// havocFam replaces a family by a fresh array that agrees with the old one on
// the read-only (negative) addresses where string constants live.
func (vc *VC) havocFam(s *State, fam string) {
	srt := vc.famSort(fam)
	old := vc.get(s, fam)
	n := vc.fresh(fam+"~h", srt)
	if fam == "E$uint8" {
		vc.assume(fmt.Sprintf("(forall ((k Int)) (! (=> (< k 0) (= (select %s k) (select %s k))) :pattern ((select %s k))))", n, old, n))
		vc.byteTyping(n)
	}
	s.m[fam] = n
}

// ---------------------------------------------------------------------------
// Values

type Place struct {
	Root  types.Type // object / element type selecting the families
	Addr  Term
	Path  string // dotted path inside Root
	Cur   types.Type
	Local string // non-escaping local variable: key prefix of its cells in the state
}

type Val struct {
	T  types.Type
	C  []Term
	Pl *Place
	Fn interface{} // *ssa.Function for statically known function values / closures
	Fv []Val       // closure bindings
}

func (v Val) t() Term {
	if len(v.C) != 1 {
		panic(fmt.Sprintf("value of type %v has %d components", v.T, len(v.C)))
	}
	return v.C[0]
}

// splitTop splits a sequence of s-expressions / atoms at the top level.
func splitTop(s string) []string {
	var out []string
	depth := 0
	start := -1
	inBar := false
	for i := 0; i < len(s); i++ {
		c := s[i]
		if c == '|' {
			inBar = !inBar
			if start < 0 {
				start = i
			}
			continue
		}
		if inBar {
			continue
		}
		switch c {
		case '(':
			if depth == 0 && start < 0 {
				start = i
			}
			depth++
		case ')':
			depth--
			if depth == 0 {
				out = append(out, s[start:i+1])
				start = -1
			}
		case ' ', '\t', '\n':
			if depth == 0 && start >= 0 {
				out = append(out, s[start:i])
				start = -1
			}
		default:
			if start < 0 {
				start = i
			}
		}
	}
	if start >= 0 {
		out = append(out, s[start:])
	}
	return out
}

// pathSplits enumerates the acyclic paths of the top-level function that lead
// to the obligation's block (back to the function entry or to the innermost
// loop head) and returns, per path, the literals that pin it down: the edge
// variables on the path are true, their sibling edges false.  On a single
// path every state merge collapses, which is what E-matching needs.
type pathInfo struct {
	lits   []Term
	blocks map[*ssa.BasicBlock]bool
}

func (vc *VC) pathSplits(ob *Obligation, limit int, late bool) []pathInfo {
	fr := vc.topFrame
	if fr == nil || ob.blk == nil {
		return nil
	}
	var out []pathInfo
	var cur []Term
	var curBlocks []*ssa.BasicBlock
	emit := func(stop *ssa.BasicBlock) {
		bs := map[*ssa.BasicBlock]bool{}
		for _, b := range curBlocks {
			bs[b] = true
		}
		// everything that was executed before the stop block stays relevant
		for _, b := range fr.fn.Blocks {
			if b == stop || b.Dominates(stop) {
				bs[b] = true
			}
		}
		out = append(out, pathInfo{lits: append([]Term{}, cur...), blocks: bs})
	}
	var dfs func(b *ssa.BasicBlock) bool
	dfs = func(b *ssa.BasicBlock) bool {
		if b == fr.fn.Blocks[0] || fr.loopHead[b] != nil {
			if len(out) >= limit {
				return false
			}
			curBlocks = append(curBlocks, b)
			emit(b)
			curBlocks = curBlocks[:len(curBlocks)-1]
			return true
		}
		n := 0
		curBlocks = append(curBlocks, b)
		defer func() { curBlocks = curBlocks[:len(curBlocks)-1] }()
		for _, p := range b.Preds {
			if backEdge(p, b) {
				continue
			}
			e, ok := fr.edgeCond[[2]int{p.Index, b.Index}]
			if !ok {
				continue
			}
			n++
			saved := len(cur)
			cur = append(cur, e)
			if os.Getenv("GOVC_DEBUG") != "" {
				cur = append(cur, fmt.Sprintf("(! true :named |trace.b%d<-b%d(%s).%d|)", b.Index, p.Index, p.Comment, len(cur)))
			}
			for _, s := range p.Succs {
				if s != b {
					if se, ok := fr.edgeCond[[2]int{p.Index, s.Index}]; ok {
						cur = append(cur, not(se))
					}
				}
			}
			// the other edges into this join are not taken (lets the solver's
			// preprocessing collapse the merged states)
			for _, op := range b.Preds {
				if op != p && !backEdge(op, b) {
					if oe, ok := fr.edgeCond[[2]int{op.Index, b.Index}]; ok && oe != e {
						cur = append(cur, not(oe))
					}
				}
			}
			if !dfs(p) {
				return false
			}
			cur = cur[:saved]
		}
		if n == 0 {
			emit(b)
		}
		return true
	}
	if !dfs(ob.blk) {
		return nil
	}
	// split further on the exit iteration of unrolled loops executed before
	for _, g := range vc.caseGroups {
		if g.nAssert > ob.nAsserts || len(g.conds) < 2 || (g.late && !late) {
			continue
		}
		if len(out)*len(g.conds) > limit {
			continue
		}
		var next []pathInfo
		for _, pi := range out {
			for k, c := range g.conds {
				lits := append([]Term{}, pi.lits...)
				lits = append(lits, c)
				for j, o := range g.conds {
					if j != k {
						lits = append(lits, not(o))
					}
				}
				next = append(next, pathInfo{lits: lits, blocks: pi.blocks})
			}
		}
		out = next
	}
	if len(out) <= 1 {
		return nil
	}
	return out
}

// divmodConst returns fresh q, r with x = c*q + r and 0 <= r < c (c a positive
// literal, x non-negative).
func (vc *VC) divmodConst(x Term, c string) (Term, Term) {
	if vc.divMemo == nil {
		vc.divMemo = map[string][2]Term{}
	}
	key := x + "/" + c
	if qr, ok := vc.divMemo[key]; ok {
		return qr[0], qr[1]
	}
	q := vc.fresh("q", "Int")
	r := vc.fresh("r", "Int")
	vc.addAssertGlobal(fmt.Sprintf("(assert (and (= %s (+ (* %s %s) %s)) (<= 0 %s) (< %s %s) (=> (>= %s 0) (>= %s 0))))", x, c, q, r, r, r, c, x, q))
	vc.divMemo[key] = [2]Term{q, r}
	return q, r
}

// wrapT reduces a mathematical integer to the range of t (exact wrap-around)
// using the linear quotient/remainder encoding.
func (vc *VC) wrapT(t types.Type, x Term) Term {
	if n, ok := litInt(x); ok {
		_ = n
		return wrap(t, x)
	}
	bits := intBits(t)
	m := pow2T(bits)
	xn := vc.define("w", "Int", x)
	if isUnsigned(t) {
		_, r := vc.divmodAny(xn, m)
		return r
	}
	h := pow2T(bits - 1)
	_, r := vc.divmodAny(vc.define("w", "Int", sx("+", xn, h)), m)
	return sx("-", r, h)
}

// divmodAny: x = c*q + r with 0 <= r < c for any integer x (floor division).
func (vc *VC) divmodAny(x Term, c string) (Term, Term) {
	if vc.divMemo == nil {
		vc.divMemo = map[string][2]Term{}
	}
	key := x + "//" + c
	if qr, ok := vc.divMemo[key]; ok {
		return qr[0], qr[1]
	}
	q := vc.fresh("q", "Int")
	r := vc.fresh("r", "Int")
	vc.addAssertGlobal(fmt.Sprintf("(assert (and (= %s (+ (* %s %s) %s)) (<= 0 %s) (< %s %s)))", x, c, q, r, r, r, c))
	vc.divMemo[key] = [2]Term{q, r}
	return q, r
}

func (vc *VC) hasLateGroups(ob *Obligation) bool {
	for _, g := range vc.caseGroups {
		if g.late && g.nAssert <= ob.nAsserts {
			return true
		}
	}
	return false
}
