package main

// Static write sets (by heap family) per function and per loop, computed from
// the real SSA.  Used for loop havoc and for calls to functions without an
// assigns clause.  Over-approximate and therefore sound for framing.

import (
	"go/types"
	"strings"

	"golang.org/x/tools/go/ssa"
)

type modset struct {
	fams   map[string]string // family -> leaf sort
	all    bool
	allocs bool
	why    string
	locals map[*ssa.Alloc]bool // non-escaping locals stored to (not propagated to callers)
	iters  map[*ssa.Range]bool // map iterators advanced (not propagated to callers)
	// interior-pointer arguments: callee families rooted at the embedded
	// struct's type are also written under the enclosing object's root
	trans map[*ssa.Function][][2]string
}

// unionTranslated adds o's families, renamed through the interior-pointer
// arguments recorded for calls of callee.
func (m *modset) unionTranslated(callee *ssa.Function, o *modset) bool {
	changed := false
	for _, tr := range m.trans[callee] {
		for fam, srt := range o.fams {
			if strings.HasPrefix(fam, tr[0]) {
				nf := tr[1] + fam[len(tr[0]):]
				if _, ok := m.fams[nf]; !ok {
					m.fams[nf] = srt
					changed = true
				}
			}
		}
	}
	return changed
}

func newModset() *modset { return &modset{fams: map[string]string{}, locals: map[*ssa.Alloc]bool{}, iters: map[*ssa.Range]bool{}, trans: map[*ssa.Function][][2]string{}} }

func (m *modset) union(o *modset) bool {
	changed := false
	if o.all && !m.all {
		m.all = true
		m.why = o.why
		changed = true
	}
	if o.allocs && !m.allocs {
		m.allocs = true
		changed = true
	}
	for k, v := range o.fams {
		if _, ok := m.fams[k]; !ok {
			m.fams[k] = v
			changed = true
		}
	}
	return changed
}

func (m *modset) addLeaves(root types.Type, path string, cur types.Type) {
	if at, ok := cur.Underlying().(*types.Array); ok {
		m.addElem(at.Elem())
		return
	}
	for _, l := range leaves(cur) {
		m.fams[family(root, joinPath(path, l.key()))] = l.Sort
	}
	if hasEmbeddedArray(cur) {
		arrs, _ := embeddedArrays(cur)
		for _, a := range arrs {
			m.addElem(a.Elem)
		}
	}
}

func (m *modset) addElem(elem types.Type) {
	for _, l := range leaves(elem) {
		m.fams[family(elem, l.key())] = l.Sort
	}
}

func (m *modset) addGhost(names ...string) {
	for _, n := range names {
		m.fams[n] = ghostSorts[n]
	}
}

// resolveAddr walks an address expression back to its root object type and
// static path.
func resolveAddr(v ssa.Value) (root types.Type, path string, cur types.Type, ok bool) {
	switch x := v.(type) {
	case *ssa.FieldAddr:
		r, p, c, ok := resolveAddr(x.X)
		if !ok {
			return nil, "", nil, false
		}
		stt, isS := c.Underlying().(*types.Struct)
		if !isS {
			return nil, "", nil, false
		}
		f := stt.Field(x.Field)
		return r, joinPath(p, f.Name()), f.Type(), true
	case *ssa.IndexAddr:
		switch u := x.X.Type().Underlying().(type) {
		case *types.Slice:
			return u.Elem(), "", u.Elem(), true
		case *types.Pointer:
			if at, isA := u.Elem().Underlying().(*types.Array); isA {
				return at.Elem(), "", at.Elem(), true
			}
		}
		return nil, "", nil, false
	default:
		pt, isP := v.Type().Underlying().(*types.Pointer)
		if !isP {
			return nil, "", nil, false
		}
		return pt.Elem(), "", pt.Elem(), true
	}
}

func (eng *Engine) instrMods(fn *ssa.Function, ins ssa.Instruction, m *modset, callees *[]*ssa.Function) {
	switch x := ins.(type) {
	case *ssa.Store:
		if al := rootAlloc(x.Addr); al != nil && !al.Heap {
			t := al.Type().(*types.Pointer).Elem()
			if _, isArr := t.Underlying().(*types.Array); !isArr && !hasEmbeddedArray(t) {
				m.locals[al] = true
				return
			}
		}
		root, path, cur, ok := resolveAddr(x.Addr)
		if !ok {
			m.all = true
			m.why = "store through unresolvable address in " + fn.String()
			return
		}
		m.addLeaves(root, path, cur)
	case *ssa.Alloc:
		t := x.Type().(*types.Pointer).Elem()
		if _, isArr := t.Underlying().(*types.Array); !x.Heap && !isArr && !hasEmbeddedArray(t) {
			m.locals[x] = true
			return
		}
		m.allocs = true
		// zero-initialisation writes the object's own families (fresh memory)
		if at, ok := t.Underlying().(*types.Array); ok {
			m.addElem(at.Elem())
		} else {
			m.addLeaves(t, "", t)
		}
	case *ssa.Next:
		if r, ok := x.Iter.(*ssa.Range); ok {
			m.iters[r] = true
		}
	case *ssa.MakeSlice:
		m.allocs = true
		m.addElem(x.Type().Underlying().(*types.Slice).Elem())
	case *ssa.MakeMap, *ssa.MakeClosure, *ssa.MakeChan:
		m.allocs = true
	case *ssa.MapUpdate:
		mt := x.Map.Type().Underlying().(*types.Map)
		for fam, srt := range mapFamilies(mt) {
			m.fams[fam] = srt
		}
	case *ssa.Convert:
		if (isString(x.Type()) && isByteSlice(x.X.Type())) || (isByteSlice(x.Type()) && isString(x.X.Type())) {
			m.allocs = true
			m.fams["E$uint8"] = "Int"
		}
	case *ssa.BinOp:
		if isString(x.Type()) {
			m.allocs = true
			m.fams["E$uint8"] = "Int"
		}
	case *ssa.Call:
		eng.callMods(fn, x.Common(), m, callees)
		if callee := x.Common().StaticCallee(); callee != nil {
			for _, a := range x.Common().Args {
				if _, isPtr := a.Type().Underlying().(*types.Pointer); !isPtr {
					continue
				}
				root, path, cur, ok := resolveAddr(a)
				if !ok || path == "" || root == nil || cur == nil {
					continue
				}
				if _, isStruct := cur.Underlying().(*types.Struct); !isStruct {
					continue
				}
				from := family(cur, "")
				to := family(root, path+".")
				tr := [2]string{strings.TrimSuffix(from, "#"), strings.TrimSuffix(to, "#")}
				dup := false
				for _, e := range m.trans[callee] {
					if e == tr {
						dup = true
					}
				}
				if !dup {
					m.trans[callee] = append(m.trans[callee], tr)
				}
			}
		}
	case *ssa.Defer, *ssa.Go:
		m.all = true
		m.why = "defer/go in " + fn.String()
	}
}

func (eng *Engine) callMods(fn *ssa.Function, c *ssa.CallCommon, m *modset, callees *[]*ssa.Function) {
	if c.IsInvoke() {
		if im := ifaceMods(c); im != nil {
			m.union(im)
			return
		}
		// class hierarchy: all repository implementations
		impls := eng.implementations(c)
		if impls == nil {
			m.all = true
			m.why = "invoke of " + c.Method.FullName() + " in " + fn.String()
			return
		}
		*callees = append(*callees, impls...)
		return
	}
	switch callee := c.Value.(type) {
	case *ssa.Builtin:
		switch callee.Name() {
		case "append":
			m.allocs = true
			m.addElem(c.Args[0].Type().Underlying().(*types.Slice).Elem())
		case "copy":
			m.addElem(c.Args[0].Type().Underlying().(*types.Slice).Elem())
		case "delete":
			mt := c.Args[0].Type().Underlying().(*types.Map)
			for fam, srt := range mapFamilies(mt) {
				m.fams[fam] = srt
			}
		}
	case *ssa.Function:
		eng.staticMods(fn, callee, m, callees)
	case *ssa.MakeClosure:
		eng.staticMods(fn, callee.Fn.(*ssa.Function), m, callees)
	default:
		if fm := funcTypeMods[types.TypeString(c.Value.Type(), func(p *types.Package) string { return p.Name() })]; fm != nil {
			m.union(fm)
			return
		}
		m.all = true
		m.why = "call of function value in " + fn.String()
	}
}

var funcTypeMods = map[string]*modset{}

func (eng *Engine) staticMods(fn, callee *ssa.Function, m *modset, callees *[]*ssa.Function) {
	name := callee.String()
	if im, ok := intrinsicMods[name]; ok {
		m.union(im)
		return
	}
	if _, ok := intrinsics[name]; ok {
		return
	}
	if c := eng.contractOf(callee); c != nil && c.Trusted {
		// trusted contracts declare their frame
		tm := newModset()
		tm.allocs = true
		if len(c.byKind("assigns")) == 0 {
			m.union(tm)
			return
		}
	}
	if callee.Blocks == nil {
		m.all = true
		m.why = "call of body-less " + name + " in " + fn.String()
		return
	}
	if !eng.inlinable(callee) {
		if pureStd(callee) {
			m.allocs = true
			return
		}
		m.all = true
		m.why = "call of unmodelled " + name + " in " + fn.String()
		return
	}
	*callees = append(*callees, callee)
}

func pureStd(fn *ssa.Function) bool {
	if fn.Pkg == nil {
		return false
	}
	switch fn.Pkg.Pkg.Path() {
	case "math", "math/bits", "unicode", "unicode/utf8", "unicode/utf16", "strings", "errors":
		return true
	}
	return false
}

var intrinsicMods = map[string]*modset{}

func (eng *Engine) modsetOf(fn *ssa.Function) *modset {
	if m, ok := eng.modsets[fn]; ok {
		return m
	}
	// collect the call graph reachable from fn
	direct := map[*ssa.Function]*modset{}
	calls := map[*ssa.Function][]*ssa.Function{}
	var order []*ssa.Function
	var visit func(f *ssa.Function)
	visit = func(f *ssa.Function) {
		if _, ok := direct[f]; ok {
			return
		}
		if m, ok := eng.modsets[f]; ok {
			direct[f] = m
			return
		}
		m := newModset()
		direct[f] = m
		order = append(order, f)
		var cs []*ssa.Function
		for _, b := range f.Blocks {
			for _, ins := range b.Instrs {
				eng.instrMods(f, ins, m, &cs)
			}
		}
		calls[f] = cs
		for _, c := range cs {
			visit(c)
		}
	}
	visit(fn)
	for changed := true; changed; {
		changed = false
		for _, f := range order {
			for _, c := range calls[f] {
				if direct[f].union(direct[c]) {
					changed = true
				}
				if direct[f].unionTranslated(c, direct[c]) {
					changed = true
				}
			}
		}
	}
	for _, f := range order {
		eng.modsets[f] = direct[f]
	}
	return eng.modsets[fn]
}

func (eng *Engine) loopModset(fn *ssa.Function, li *loopInfo) *modset {
	m := newModset()
	var cs []*ssa.Function
	for b := range li.blocks {
		for _, ins := range b.Instrs {
			eng.instrMods(fn, ins, m, &cs)
		}
	}
	for _, c := range cs {
		m.union(eng.modsetOf(c))
		m.unionTranslated(c, eng.modsetOf(c))
	}
	return m
}

// implementations of an interface method among the repository's types.
func (eng *Engine) implementations(c *ssa.CallCommon) []*ssa.Function {
	iface, ok := c.Value.Type().Underlying().(*types.Interface)
	if !ok {
		return nil
	}
	var out []*ssa.Function
	for fn := range eng.allFuncs {
		if fn.Name() != c.Method.Name() || fn.Signature.Recv() == nil {
			continue
		}
		if fn.Synthetic != "" && !strings.HasPrefix(fn.Synthetic, "wrapper") {
			continue
		}
		rt := fn.Signature.Recv().Type()
		if !strings.HasPrefix(eng.pkgPathOf(fn), eng.modPath) {
			continue
		}
		if types.Implements(rt, iface) {
			out = append(out, fn)
		}
	}
	if len(out) == 0 {
		return nil
	}
	return out
}

func mapFamilies(mt *types.Map) map[string]string {
	// maps are not modelled: nothing in a VC can read them, so their writes
	// need no havoc
	return map[string]string{}
}

func rootAlloc(v ssa.Value) *ssa.Alloc {
	for {
		switch x := v.(type) {
		case *ssa.FieldAddr:
			v = x.X
		case *ssa.Alloc:
			return x
		default:
			return nil
		}
	}
}
