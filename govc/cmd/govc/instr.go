package main

// Semantics of the individual go/ssa instructions.

import (
	"fmt"
	"go/token"
	"go/types"
	"strings"

	"golang.org/x/tools/go/ssa"
)

func (fr *Frame) safety(kind string, ins ssa.Instruction, rch, cond Term) {
	if kind == "nil" {
		// one nil obligation per pointer and block
		if fr.nilSeen == nil {
			fr.nilSeen = map[*ssa.BasicBlock]map[Term]bool{}
		}
		m := fr.nilSeen[fr.curBlock]
		if m == nil {
			m = map[Term]bool{}
			fr.nilSeen[fr.curBlock] = m
		}
		if m[cond] {
			return
		}
		m[cond] = true
	}
	if fr.noSafety {
		fr.vc.assumeIf(rch, cond)
		return
	}
	fr.vc.oblige(kind, fr.siteOf(ins, kind), rch, cond, fr.safetyProps(), !fr.top, fr.vc.pos(ins.Pos()))
}

func (fr *Frame) exec(ins ssa.Instruction, st *State, rch Term) {
	vc := fr.vc
	switch x := ins.(type) {
	case *ssa.DebugRef:
		return
	case *ssa.Alloc:
		t := x.Type().(*types.Pointer).Elem()
		if _, isArr := t.Underlying().(*types.Array); !x.Heap && !isArr && !hasEmbeddedArray(t) {
			// non-escaping local variable: its cells live in the state, not in the heap
			vc.nfresh++
			pl := &Place{Root: t, Cur: t, Local: fmt.Sprintf("L$%s.%s!%d", fr.prefix, x.Name(), vc.nfresh)}
			vc.storeTo(pl, vc.zeroVal(t), st, nil)
			fr.vals[x] = vc.ptrVal(pl)
			return
		}
		fr.vals[x] = fr.alloc(t, st)
	case *ssa.FieldAddr:
		base := fr.value(x.X)
		pl := vc.placeOf(base)
		if pl.Local != "" {
			// local variable: never nil
		} else if pl.Path == "" && base.Pl == nil {
			fr.safety("nil", x, rch, not(eq(base.t(), "0")))
		} else if pl.Path == "" {
			fr.safety("nil", x, rch, not(eq(pl.Addr, "0")))
		}
		stt := pl.Cur.Underlying().(*types.Struct)
		f := stt.Field(x.Field)
		np := &Place{Root: pl.Root, Addr: pl.Addr, Path: joinPath(pl.Path, f.Name()), Cur: f.Type(), Local: pl.Local}
		fr.vals[x] = vc.ptrVal(np)
	case *ssa.Field:
		base := fr.value(x.X)
		fr.vals[x] = fieldOf(base, x.Field)
	case *ssa.IndexAddr:
		fr.vals[x] = fr.indexAddr(x, st, rch)
	case *ssa.Index:
		// index of string or array value
		base := fr.value(x.X)
		idx := fr.value(x.Index).t()
		if isString(base.T) {
			fr.safety("bounds", x, rch, and(sx("<=", "0", idx), sx("<", idx, base.C[1])))
			vc.regFam("E$uint8", "Int")
			fr.vals[x] = Val{T: x.Type(), C: []Term{vc.sel(vc.get(st, "E$uint8"), adr(base.C[0], idx))}}
			vc.assumeIf(rch, vc.wf(fr.vals[x], st))
		} else {
			unsup("Index on %s", base.T)
		}
	case *ssa.Lookup:
		base := fr.value(x.X)
		if isString(base.T) {
			idx := fr.value(x.Index).t()
			fr.safety("bounds", x, rch, and(sx("<=", "0", idx), sx("<", idx, base.C[1])))
			vc.regFam("E$uint8", "Int")
			v := Val{T: x.Type(), C: []Term{vc.sel(vc.get(st, "E$uint8"), adr(base.C[0], idx))}}
			fr.vals[x] = fr.named(x, v)
			vc.assumeIf(rch, vc.wf(fr.vals[x], st))
		} else {
			fr.vals[x] = fr.mapLookup(x, st, rch)
		}
	case *ssa.UnOp:
		fr.vals[x] = fr.unop(x, st, rch)
	case *ssa.BinOp:
		fr.vals[x] = fr.named(x, fr.binop(x, st, rch))
	case *ssa.Store:
		addr := fr.value(x.Addr)
		pl := vc.placeOf(addr)
		if addr.Pl == nil {
			fr.safety("nil", x, rch, not(eq(addr.t(), "0")))
		}
		fr.checkGlobalStore(pl, x, rch)
		val := fr.value(x.Val)
		for _, c := range val.C {
			if strings.HasPrefix(c, "<interior:") || strings.HasPrefix(c, "<local:") {
				// a pointer into the middle of an object (or to a local cell) has no
				// value representation in the component memory model
				unsup("interior pointer stored as a value")
			}
		}
		if _, isArr := pl.Cur.Underlying().(*types.Array); isArr {
			// whole-array store (zero value / copy): contents become unknown
			vc.havocElems(pl.Cur.Underlying().(*types.Array).Elem(), fr.elemBase(pl), itoa(pl.Cur.Underlying().(*types.Array).Len()), st, fr)
			return
		}
		vc.storeTo(pl, val, st, fr)
	case *ssa.Convert:
		fr.vals[x] = fr.named(x, fr.convert(x, st, rch))
	case *ssa.ChangeType:
		v := fr.value(x.X)
		v.T = x.Type()
		fr.vals[x] = v
	case *ssa.ChangeInterface:
		v := fr.value(x.X)
		v.T = x.Type()
		fr.vals[x] = v
	case *ssa.MakeInterface:
		fr.vals[x] = fr.makeInterface(x, st)
	case *ssa.TypeAssert:
		fr.vals[x] = fr.typeAssert(x, st, rch)
	case *ssa.Extract:
		tup := fr.value(x.Tuple)
		tt := tup.T.(*types.Tuple)
		off := 0
		for i := 0; i < x.Index; i++ {
			off += len(leaves(tt.At(i).Type()))
		}
		n := len(leaves(tt.At(x.Index).Type()))
		v := Val{T: tt.At(x.Index).Type(), C: tup.C[off : off+n]}
		if tup.Fv != nil && x.Index < len(tup.Fv) {
			v.Pl = tup.Fv[x.Index].Pl
			v.Fn = tup.Fv[x.Index].Fn
			v.Fv = tup.Fv[x.Index].Fv
		}
		fr.vals[x] = v
	case *ssa.Slice:
		fr.vals[x] = fr.slice(x, st, rch)
	case *ssa.MakeSlice:
		ln := fr.value(x.Len).t()
		cp := fr.value(x.Cap).t()
		fr.safety("make-size", x, rch, and(sx("<=", "0", ln), sx("<=", ln, cp), sx("<=", cp, "4611686018428436480")))
		elem := x.Type().Underlying().(*types.Slice).Elem()
		arr := fr.allocArray(elem, cp, st, true)
		fr.vals[x] = Val{T: x.Type(), C: []Term{arr, ln, cp}}
	case *ssa.Call:
		fr.vals[x] = fr.call(x, st, rch)
	case *ssa.MakeClosure:
		fn := x.Fn.(*ssa.Function)
		v := Val{T: x.Type(), Fn: fn}
		for _, b := range x.Bindings {
			v.Fv = append(v.Fv, fr.value(b))
		}
		v.C = []Term{vc.fresh("clo", "Int")}
		vc.assume(sx("<", "0", v.C[0]))
		fr.vals[x] = v
	case *ssa.MakeMap:
		fr.vals[x] = fr.makeMap(x, st, rch)
	case *ssa.MapUpdate:
		fr.mapUpdate(x, st, rch)
	case *ssa.Range:
		fr.vals[x] = fr.mapRange(x, st)
	case *ssa.Next:
		fr.vals[x] = fr.mapNext(x, st, rch)
	case *ssa.RunDefers:
		return
	case *ssa.Defer, *ssa.Go, *ssa.Select, *ssa.Send:
		unsup("%T", ins)
	case *ssa.SliceToArrayPointer:
		unsup("SliceToArrayPointer")
	default:
		unsup("instruction %T", ins)
	}
}

// named gives compound terms a name carrying the SSA register (keeps queries
// shallow and models readable).
func (fr *Frame) named(x ssa.Value, v Val) Val {
	ls := leaves(v.T)
	for i := range v.C {
		srt := "Int"
		if i < len(ls) {
			srt = ls[i].Sort
		}
		v.C[i] = fr.vc.define(fr.prefix+"."+x.Name(), srt, v.C[i])
	}
	return v
}

func fieldOf(base Val, idx int) Val {
	stt := base.T.Underlying().(*types.Struct)
	off := 0
	for i := 0; i < idx; i++ {
		off += len(leaves(stt.Field(i).Type()))
	}
	n := len(leaves(stt.Field(idx).Type()))
	return Val{T: stt.Field(idx).Type(), C: base.C[off : off+n]}
}

func (fr *Frame) alloc(t types.Type, st *State) Val {
	vc := fr.vc
	a := vc.get(st, "$alloc")
	switch u := t.Underlying().(type) {
	case *types.Array:
		arr := fr.allocArray(u.Elem(), itoa(u.Len()), st, true)
		pl := &Place{Root: t, Addr: arr, Cur: t}
		return vc.ptrVal(pl)
	case *types.Struct:
		addr := vc.define("new", "Int", a)
		vc.set(st, "$alloc", add(a, itoa(reserveOf(t))))
		pl := &Place{Root: t, Addr: addr, Cur: t}
		// zero the leaves
		vc.storeTo(pl, vc.zeroVal(t), st, nil)
		// embedded arrays are zero: storeTo havocs them; re-establish zero content
		arrs, _ := embeddedArrays(t)
		for _, ea := range arrs {
			fr.zeroElems(ea.Elem, adr(addr, itoa(ea.Off)), itoa(ea.N), st)
		}
		vc.assume(sx("<", "0", addr))
		return vc.ptrVal(pl)
	default:
		// scalar cell: a one-element array
		arr := fr.allocArray(t, "1", st, true)
		pl := &Place{Root: t, Addr: arr, Cur: t}
		return vc.ptrVal(pl)
	}
}

func (fr *Frame) zeroElems(elem types.Type, addr, n Term, st *State) {
	vc := fr.vc
	for _, l := range leaves(elem) {
		fam := family(elem, l.key())
		vc.regFam(fam, l.Sort)
		h := vc.get(st, fam)
		z := "0"
		if l.Sort == "Bool" {
			z = "false"
		}
		vc.assume(fmt.Sprintf("(forall ((k Int)) (! (=> (and (<= %s k) (< k (+ %s %s))) (= (select %s k) %s)) :pattern ((select %s k))))", addr, addr, n, h, z, h))
	}
}

// allocArray reserves n elements and returns the address of element 0.
func (fr *Frame) allocArray(elem types.Type, n Term, st *State, zero bool) Term {
	vc := fr.vc
	a := vc.get(st, "$alloc")
	addr := vc.define("mk", "Int", a)
	vc.assume(sx("<", "0", addr))
	vc.set(st, "$alloc", sx("+", a, n, "1"))
	if zero {
		// fresh memory is zero: havoc region then assert zero contents
		if _, isStruct := elem.Underlying().(*types.Struct); isStruct && hasEmbeddedArray(elem) {
			unsup("array of structs with embedded arrays")
		}
		fr.zeroFresh(elem, addr, n, st)
	}
	return addr
}

func (fr *Frame) zeroFresh(elem types.Type, addr, n Term, st *State) {
	vc := fr.vc
	for _, l := range leaves(elem) {
		fam := family(elem, l.key())
		vc.regFam(fam, l.Sort)
		old := vc.get(st, fam)
		nw := vc.fresh(fam+"~z", vc.famSort(fam))
		z := "0"
		if l.Sort == "Bool" {
			z = "false"
		}
		vc.assume(fmt.Sprintf("(forall ((k Int)) (! (= (select %s k) (ite (and (<= %s k) (< k (+ %s %s))) %s (select %s k))) :pattern ((select %s k))))", nw, addr, addr, n, z, old, nw))
		st.m[fam] = nw
	}
}

func (fr *Frame) elemBase(pl *Place) Term {
	if _, ok := pl.Root.Underlying().(*types.Array); ok && pl.Path == "" {
		return pl.Addr
	}
	return adr(pl.Addr, itoa(embOffset(pl.Root, pl.Path)))
}

func (fr *Frame) indexAddr(x *ssa.IndexAddr, st *State, rch Term) Val {
	vc := fr.vc
	base := fr.value(x.X)
	idx := fr.value(x.Index).t()
	switch u := base.T.Underlying().(type) {
	case *types.Slice:
		fr.safety("bounds", x, rch, and(sx("<=", "0", idx), sx("<", idx, base.C[1])))
		pl := &Place{Root: u.Elem(), Addr: adr(base.C[0], idx), Cur: u.Elem()}
		return vc.ptrVal(pl)
	case *types.Pointer:
		at, ok := u.Elem().Underlying().(*types.Array)
		if !ok {
			unsup("IndexAddr on %s", base.T)
		}
		pl := vc.placeOf(base)
		if base.Pl == nil {
			fr.safety("nil", x, rch, not(eq(base.t(), "0")))
		}
		fr.safety("bounds", x, rch, and(sx("<=", "0", idx), sx("<", idx, itoa(at.Len()))))
		ep := &Place{Root: at.Elem(), Addr: adr(fr.elemBase(pl), idx), Cur: at.Elem()}
		return vc.ptrVal(ep)
	}
	unsup("IndexAddr on %s", base.T)
	return Val{}
}

func (fr *Frame) slice(x *ssa.Slice, st *State, rch Term) Val {
	vc := fr.vc
	base := fr.value(x.X)
	var arr, ln, cp Term
	isStr := false
	switch u := base.T.Underlying().(type) {
	case *types.Slice:
		arr, ln, cp = base.C[0], base.C[1], base.C[2]
	case *types.Basic:
		isStr = true
		arr, ln, cp = base.C[0], base.C[1], base.C[1]
	case *types.Pointer:
		at := u.Elem().Underlying().(*types.Array)
		pl := vc.placeOf(base)
		if base.Pl == nil {
			fr.safety("nil", x, rch, not(eq(base.t(), "0")))
		}
		arr = fr.elemBase(pl)
		ln, cp = itoa(at.Len()), itoa(at.Len())
	default:
		unsup("slice of %s", base.T)
	}
	lo, hi, mx := Term("0"), Term(""), cp
	if x.Low != nil {
		lo = fr.value(x.Low).t()
	}
	if x.High != nil {
		hi = fr.value(x.High).t()
	} else {
		hi = ln
	}
	if x.Max != nil {
		mx = fr.value(x.Max).t()
	}
	limit := cp
	if isStr {
		limit = ln
	}
	fr.safety("slice", x, rch, and(sx("<=", "0", lo), sx("<=", lo, hi), sx("<=", hi, mx), sx("<=", mx, limit)))
	na := adr(arr, lo)
	if isStr {
		return Val{T: x.Type(), C: []Term{na, vc.define("sl", "Int", sub(hi, lo))}}
	}
	// slicing a nil slice yields nil (arr 0 + lo 0)
	return Val{T: x.Type(), C: []Term{na, vc.define("sl", "Int", sub(hi, lo)), vc.define("sl", "Int", sub(mx, lo))}}
}

func (fr *Frame) unop(x *ssa.UnOp, st *State, rch Term) Val {
	vc := fr.vc
	v := fr.value(x.X)
	switch x.Op {
	case token.MUL: // load
		pl := vc.placeOf(v)
		if v.Pl == nil {
			fr.safety("nil", x, rch, not(eq(v.t(), "0")))
		}
		if _, isArr := pl.Cur.Underlying().(*types.Array); isArr {
			// array value: only used to be stored again; represent as opaque
			return Val{T: pl.Cur}
		}
		r := vc.load(pl, st)
		r = fr.named(x, r)
		vc.assumeIf(rch, vc.wf(r, st))
		fr.applyGlobalInv(pl, r, st, rch)
		return r
	case token.NOT:
		return Val{T: x.Type(), C: []Term{not(v.t())}}
	case token.SUB:
		if isFloat(x.Type()) {
			f := vc.declareFun("fneg", []string{"Int"}, "Int")
			return Val{T: x.Type(), C: []Term{sx(f, v.t())}}
		}
		return Val{T: x.Type(), C: []Term{vc.wrapT(x.Type(), sx("-", "0", v.t()))}}
	case token.XOR:
		t := x.Type()
		if isUnsigned(t) {
			return Val{T: t, C: []Term{sx("-", bigTerm(new(bigInt).Sub(pow2(intBits(t)), bigOne)), v.t())}}
		}
		return Val{T: t, C: []Term{sx("-", "(- 1)", v.t())}}
	}
	unsup("unop %s", x.Op)
	return Val{}
}

// wrap reduces a mathematical integer to the representable range of t.
func wrap(t types.Type, x Term) Term {
	n := intBits(t)
	m := pow2T(n)
	if isUnsigned(t) {
		return sx("mod", x, m)
	}
	h := pow2T(n - 1)
	return sx("-", sx("mod", sx("+", x, h), m), h)
}

// wrap1 is wrap for a value known to be off by at most one modulus.
func wrap1(t types.Type, x Term) Term {
	n := intBits(t)
	m := pow2T(n)
	if isUnsigned(t) {
		return sx("ite", sx(">=", x, m), sx("-", x, m), sx("ite", sx("<", x, "0"), sx("+", x, m), x))
	}
	h := pow2T(n - 1)
	return sx("ite", sx(">=", x, h), sx("-", x, m), sx("ite", sx("<", x, "(- "+h+")"), sx("+", x, m), x))
}

func toUnsigned(t types.Type, x Term) Term {
	if isUnsigned(t) {
		return x
	}
	return sx("ite", sx("<", x, "0"), sx("+", x, pow2T(intBits(t))), x)
}

func fromUnsigned(t types.Type, x Term) Term {
	if isUnsigned(t) {
		return x
	}
	n := intBits(t)
	return sx("ite", sx(">=", x, pow2T(n-1)), sx("-", x, pow2T(n)), x)
}

func constOf(v ssa.Value) (*bigInt, bool) {
	c, ok := v.(*ssa.Const)
	if !ok || c.Value == nil {
		return nil, false
	}
	if !isInteger(c.Type()) {
		return nil, false
	}
	n, ok := new(bigInt).SetString(c.Value.ExactString(), 10)
	return n, ok
}

// andConst computes x & c for an unsigned-representation x.
func andConst(xu Term, c *bigInt, bits uint) Term {
	// split c into contiguous runs of ones
	var parts []Term
	i := uint(0)
	for i < bits {
		if c.Bit(int(i)) == 0 {
			i++
			continue
		}
		j := i
		for j < bits && c.Bit(int(j)) == 1 {
			j++
		}
		// bits [i,j)
		var p Term
		if i == 0 {
			if j == bits {
				p = xu
			} else {
				p = sx("mod", xu, pow2T(j))
			}
		} else {
			p = sx("*", pow2T(i), sx("mod", sx("div", xu, pow2T(i)), pow2T(j-i)))
		}
		parts = append(parts, p)
		i = j
	}
	if len(parts) == 0 {
		return "0"
	}
	if len(parts) == 1 {
		return parts[0]
	}
	return sx("+", parts...)
}

func bitOf(x Term, i uint) Term {
	if i == 0 {
		return sx("mod", x, "2")
	}
	return sx("mod", sx("div", x, pow2T(i)), "2")
}

func (fr *Frame) bitop(op token.Token, t types.Type, a, b Term, ca, cb *bigInt) Term {
	vc := fr.vc
	bits := intBits(t)
	au, bu := toUnsigned(t, a), toUnsigned(t, b)
	mask := new(bigInt).Sub(pow2(bits), bigOne)
	if ca != nil && cb == nil {
		if op != token.AND_NOT {
			return fr.bitop(op, t, b, a, cb, ca)
		}
	}
	if cb != nil {
		c := new(bigInt).And(cb, mask) // two's complement of negative constants
		if cb.Sign() < 0 {
			c = new(bigInt).And(new(bigInt).Add(cb, pow2(bits)), mask)
		}
		x := vc.define("bu", "Int", au)
		var r Term
		switch op {
		case token.AND:
			r = andConst(x, c, bits)
		case token.OR:
			r = sx("-", sx("+", x, c.String()), andConst(x, c, bits))
		case token.XOR:
			r = sx("-", sx("+", x, c.String()), sx("*", "2", andConst(x, c, bits)))
		case token.AND_NOT:
			r = sx("-", x, andConst(x, c, bits))
		}
		return fromUnsigned(t, r)
	}
	if bits <= 16 {
		x := vc.define("bu", "Int", au)
		y := vc.define("bu", "Int", bu)
		var parts []Term
		for i := uint(0); i < bits; i++ {
			xa, yb := bitOf(x, i), bitOf(y, i)
			var bt Term
			switch op {
			case token.AND:
				bt = sx("*", xa, yb)
			case token.OR:
				bt = sx("-", sx("+", xa, yb), sx("*", xa, yb))
			case token.XOR:
				bt = sx("mod", sx("+", xa, yb), "2")
			case token.AND_NOT:
				bt = sx("*", xa, sx("-", "1", yb))
			}
			// linearise products of bits with ite
			switch op {
			case token.AND:
				bt = sx("ite", sx("=", xa, "1"), yb, "0")
			case token.OR:
				bt = sx("ite", sx("=", xa, "1"), "1", yb)
			case token.AND_NOT:
				bt = sx("ite", sx("=", yb, "1"), "0", xa)
			}
			if i == 0 {
				parts = append(parts, bt)
			} else {
				parts = append(parts, sx("*", pow2T(i), bt))
			}
		}
		return fromUnsigned(t, sx("+", parts...))
	}
	// wide, both operands symbolic: uninterpreted with basic facts
	name := map[token.Token]string{token.AND: "bvand", token.OR: "bvor", token.XOR: "bvxor", token.AND_NOT: "bvandnot"}[op]
	f := vc.declareFun(fmt.Sprintf("%s%d", name, bits), []string{"Int", "Int"}, "Int")
	vc.imprecise[name] = true
	r := vc.define("bw", "Int", sx(f, au, bu))
	vc.assume(and(sx("<=", "0", r), sx("<=", r, mask.String())))
	switch op {
	case token.AND:
		vc.assume(and(sx("<=", r, au), sx("<=", r, bu)))
	case token.OR:
		vc.assume(and(sx(">=", r, au), sx(">=", r, bu), sx("<=", r, sx("+", au, bu))))
	}
	return fromUnsigned(t, r)
}

func (fr *Frame) binop(x *ssa.BinOp, st *State, rch Term) Val {
	vc := fr.vc
	a, b := fr.value(x.X), fr.value(x.Y)
	t := x.X.Type()
	rt := x.Type()
	boolRes := func(tm Term) Val { return Val{T: rt, C: []Term{tm}} }
	switch x.Op {
	case token.EQL, token.NEQ:
		e := fr.equal(a, b, st)
		if x.Op == token.NEQ {
			e = not(e)
		}
		return boolRes(e)
	}
	if isFloat(t) {
		switch x.Op {
		case token.LSS, token.LEQ, token.GTR, token.GEQ:
			f := vc.declareFun("fcmp_"+x.Op.String(), []string{"Int", "Int"}, "Bool")
			return boolRes(sx(f, a.t(), b.t()))
		default:
			f := vc.declareFun("farith_"+x.Op.String()+fmt.Sprint(intBits(t)), []string{"Int", "Int"}, "Int")
			r := Val{T: rt, C: []Term{sx(f, a.t(), b.t())}}
			vc.assumeIf(rch, vc.wf(r, st))
			return r
		}
	}
	if isString(t) {
		switch x.Op {
		case token.ADD:
			return fr.concat(a, b, st)
		}
		unsup("string op %s", x.Op)
	}
	at, bt := a.t(), b.t()
	// constant folding (keeps indices literal inside unrolled loops)
	if la, oka := litBig(at); oka {
		if lb, okb := litBig(bt); okb {
			if r, ok := foldConst(x.Op, rt, x.X.Type(), la, lb); ok {
				return Val{T: rt, C: []Term{r}}
			}
		}
	}
	switch x.Op {
	case token.LSS:
		return boolRes(sx("<", at, bt))
	case token.LEQ:
		return boolRes(sx("<=", at, bt))
	case token.GTR:
		return boolRes(sx(">", at, bt))
	case token.GEQ:
		return boolRes(sx(">=", at, bt))
	case token.ADD:
		return Val{T: rt, C: []Term{wrap1(rt, vc.define("s", "Int", sx("+", at, bt)))}}
	case token.SUB:
		return Val{T: rt, C: []Term{wrap1(rt, vc.define("s", "Int", sx("-", at, bt)))}}
	case token.MUL:
		return Val{T: rt, C: []Term{vc.wrapT(rt, sx("*", at, bt))}}
	case token.QUO, token.REM:
		fr.safety("div0", x, rch, not(eq(bt, "0")))
		// truncated division
		var q Term
		if isUnsigned(rt) {
			if c, ok := constOf(x.Y); ok && c.Sign() > 0 {
				// division by a positive constant as linear constraints:
				// x = c*q + r, 0 <= r < c (much cheaper for the solvers than div/mod terms)
				q, r := vc.divmodConst(at, c.String())
				if x.Op == token.QUO {
					return Val{T: rt, C: []Term{q}}
				}
				return Val{T: rt, C: []Term{r}}
			}
			if x.Op == token.QUO {
				return Val{T: rt, C: []Term{sx("div", at, bt)}}
			}
			return Val{T: rt, C: []Term{sx("mod", at, bt)}}
		}
		absq := sx("div", sx("abs", at), sx("abs", bt))
		q = sx("ite", sx("=", sx(">=", at, "0"), sx(">=", bt, "0")), absq, sx("-", "0", absq))
		if x.Op == token.QUO {
			return Val{T: rt, C: []Term{wrap1(rt, q)}}
		}
		q = vc.define("q", "Int", q)
		return Val{T: rt, C: []Term{sx("-", at, sx("*", q, bt))}}
	case token.AND, token.OR, token.XOR, token.AND_NOT:
		if isBool(t) {
			unsup("bool bitop")
		}
		ca, _ := constOf(x.X)
		cb, _ := constOf(x.Y)
		return Val{T: rt, C: []Term{fr.bitop(x.Op, rt, at, bt, ca, cb)}}
	case token.SHL, token.SHR:
		bits := intBits(rt)
		if c, ok := constOf(x.Y); ok {
			k := uint(c.Uint64())
			if c.Sign() < 0 {
				unsup("negative shift")
			}
			if x.Op == token.SHL {
				if k >= bits {
					return Val{T: rt, C: []Term{"0"}}
				}
				return Val{T: rt, C: []Term{vc.wrapT(rt, sx("*", at, pow2T(k)))}}
			}
			if k >= bits {
				if isUnsigned(rt) {
					return Val{T: rt, C: []Term{"0"}}
				}
				return Val{T: rt, C: []Term{sx("ite", sx("<", at, "0"), "(- 1)", "0")}}
			}
			return Val{T: rt, C: []Term{sx("div", at, pow2T(k))}}
		}
		// variable shift: case split over the shift amount
		sh := vc.define("sh", "Int", bt)
		if !isUnsigned(x.Y.Type()) {
			fr.safety("shift", x, rch, sx("<=", "0", sh))
		}
		var r Term
		if x.Op == token.SHL {
			r = "0"
		} else if isUnsigned(rt) {
			r = "0"
		} else {
			r = sx("ite", sx("<", at, "0"), "(- 1)", "0")
		}
		for k := int(bits) - 1; k >= 0; k-- {
			var e Term
			if x.Op == token.SHL {
				e = wrap(rt, sx("*", at, pow2T(uint(k))))
			} else {
				e = sx("div", at, pow2T(uint(k)))
			}
			if k == 0 {
				e = at
			}
			r = sx("ite", sx("=", sh, itoa(int64(k))), e, r)
		}
		return Val{T: rt, C: []Term{r}}
	}
	unsup("binop %s", x.Op)
	return Val{}
}

func (fr *Frame) equal(a, b Val, st *State) Term {
	vc := fr.vc
	t := a.T
	if isString(t) {
		return fr.stringEq(a, b, st)
	}
	if isFloat(t) {
		f := vc.declareFun("feq", []string{"Int", "Int"}, "Bool")
		return sx(f, a.t(), b.t())
	}
	if _, ok := t.Underlying().(*types.Interface); ok {
		if len(b.C) == 1 {
			// comparison with untyped nil
			return eq(a.C[0], "0")
		}
	}
	if _, ok := b.T.Underlying().(*types.Interface); ok && len(a.C) == 1 {
		return eq(b.C[0], "0")
	}
	if _, ok := t.Underlying().(*types.Slice); ok {
		// only comparison with nil is legal Go
		if len(a.C) == 3 && a.C[0] != "0" {
			return eq(a.C[0], "0")
		}
		return eq(b.C[0], "0")
	}
	if len(a.C) != len(b.C) {
		unsup("== on %s vs %s", a.T, b.T)
	}
	if a.Pl != nil && a.Pl.Path != "" || b.Pl != nil && b.Pl.Path != "" {
		unsup("== on interior pointers")
	}
	// structs containing strings would need content equality
	for _, l := range leaves(t) {
		if isString(l.T) {
			if _, isStruct := t.Underlying().(*types.Struct); isStruct {
				unsup("== on struct with string fields")
			}
		}
	}
	var cs []Term
	for i := range a.C {
		cs = append(cs, eq(a.C[i], b.C[i]))
	}
	return and(cs...)
}

func (fr *Frame) stringEq(a, b Val, st *State) Term {
	vc := fr.vc
	vc.regFam("E$uint8", "Int")
	h := vc.get(st, "E$uint8")
	// constant on one side: expand
	for _, pair := range [][2]Val{{a, b}, {b, a}} {
		c, o := pair[0], pair[1]
		if n, ok := litInt(c.C[1]); ok && n <= 64 {
			cs := []Term{eq(o.C[1], c.C[1])}
			for i := int64(0); i < n; i++ {
				cs = append(cs, eq(sel(h, adr(o.C[0], itoa(i))), sel(h, adr(c.C[0], itoa(i)))))
			}
			return and(cs...)
		}
	}
	return and(eq(a.C[1], b.C[1]),
		fmt.Sprintf("(forall ((k Int)) (=> (and (<= 0 k) (< k %s)) (= (select %s %s) (select %s %s))))", a.C[1], h, adr(a.C[0], "k"), h, adr(b.C[0], "k")))
}

func litInt(t Term) (int64, bool) {
	var n int64
	if _, err := fmt.Sscanf(t, "%d", &n); err == nil && fmt.Sprint(n) == t {
		return n, true
	}
	return 0, false
}

func (fr *Frame) concat(a, b Val, st *State) Val {
	vc := fr.vc
	n := vc.define("cl", "Int", add(a.C[1], b.C[1]))
	arr := fr.allocArray(types.Typ[types.Uint8], n, st, false)
	vc.regFam("E$uint8", "Int")
	old := vc.get(st, "E$uint8")
	nw := vc.fresh("E$uint8~c", "(Array Int Int)")
	vc.assume(fmt.Sprintf("(forall ((k Int)) (! (= (select %s k) (ite (and (<= %s k) (< k (+ %s %s))) (select %s %s) (ite (and (<= (+ %s %s) k) (< k (+ %s %s))) (select %s %s) (select %s k)))) :pattern ((select %s k))))",
		nw, arr, arr, a.C[1], old, adr(a.C[0], sx("-", "k", arr)), arr, a.C[1], arr, n, old, adr(b.C[0], sx("-", "k", sx("+", arr, a.C[1]))), old, nw))
	st.m["E$uint8"] = nw
	return Val{T: a.T, C: []Term{arr, n}}
}

// copyBytes allocates a fresh byte region holding n bytes from src.
func (fr *Frame) copyBytes(src, n Term, st *State) Term {
	vc := fr.vc
	arr := fr.allocArray(types.Typ[types.Uint8], n, st, false)
	vc.regFam("E$uint8", "Int")
	old := vc.get(st, "E$uint8")
	nw := vc.fresh("E$uint8~c", "(Array Int Int)")
	vc.assume(fmt.Sprintf("(forall ((k Int)) (! (= (select %s k) (ite (and (<= %s k) (< k (+ %s %s))) (select %s %s) (select %s k))) :pattern ((select %s k))))",
		nw, arr, arr, n, old, adr(src, sx("-", "k", arr)), old, nw))
	// ground instances for the first bytes (consequences of the axiom above; short
	// copies such as string(in[i:i+4]) are then visible without quantifier work)
	for j := int64(0); j < 4; j++ {
		vc.assume(implies(sx("<", itoa(j), n), eq(sel(nw, adr(arr, itoa(j))), sel(old, adr(src, itoa(j))))))
	}
	st.m["E$uint8"] = nw
	return arr
}

func (fr *Frame) convert(x *ssa.Convert, st *State, rch Term) Val {
	vc := fr.vc
	v := fr.value(x.X)
	from, to := x.X.Type(), x.Type()
	switch {
	case isInteger(from) && isInteger(to):
		// skip the wrap when the source range is inside the target range
		fb, tb := intBits(from), intBits(to)
		fu, tu := isUnsigned(from), isUnsigned(to)
		if (fu == tu && fb <= tb) || (fu && !tu && fb < tb) {
			return Val{T: to, C: []Term{v.t()}}
		}
		if c, ok := constOf(x.X); ok {
			_ = c
		}
		if fb <= tb || (fb == tb) {
			return Val{T: to, C: []Term{wrap1(to, v.t())}}
		}
		return Val{T: to, C: []Term{vc.wrapT(to, v.t())}}
	case isInteger(from) && isFloat(to):
		f := vc.declareFun(fmt.Sprintf("i2f%d", intBits(to)), []string{"Int"}, "Int")
		r := Val{T: to, C: []Term{sx(f, v.t())}}
		vc.assumeIf(rch, vc.wf(r, st))
		return r
	case isFloat(from) && isInteger(to):
		f := vc.declareFun(fmt.Sprintf("f%d2i_%s", intBits(from), typeKey(to)), []string{"Int"}, "Int")
		r := Val{T: to, C: []Term{sx(f, v.t())}}
		vc.assumeIf(rch, vc.wf(r, st))
		return r
	case isFloat(from) && isFloat(to):
		if intBits(from) == intBits(to) {
			return Val{T: to, C: v.C}
		}
		f := vc.declareFun(fmt.Sprintf("f%dto%d", intBits(from), intBits(to)), []string{"Int"}, "Int")
		r := Val{T: to, C: []Term{sx(f, v.t())}}
		vc.assumeIf(rch, vc.wf(r, st))
		return r
	case isString(to) && isByteSlice(from):
		arr := fr.copyBytes(v.C[0], v.C[1], st)
		return Val{T: to, C: []Term{arr, v.C[1]}}
	case isByteSlice(to) && isString(from):
		arr := fr.copyBytes(v.C[0], v.C[1], st)
		return Val{T: to, C: []Term{arr, v.C[1], v.C[1]}}
	case isUnsafePointer(from) || isUnsafePointer(to):
		if _, ok := from.Underlying().(*types.Pointer); ok {
			// pointer -> unsafe.Pointer: keep the address and the place
			return Val{T: to, C: v.C, Pl: v.Pl}
		}
		if pt, ok := to.Underlying().(*types.Pointer); ok {
			// unsafe.Pointer -> *T: the same address viewed as a T.  Memory is
			// typed by family (Burstall), so a cell written through *T is only
			// related to reads through the same T: sound for code that uses one
			// view per cell, which is what a contract about "*(*T)(p) == v" needs.
			if v.Pl != nil && types.Identical(v.Pl.Cur, pt.Elem()) {
				return Val{T: to, C: v.C, Pl: v.Pl}
			}
			if hasEmbeddedArray(pt.Elem()) {
				unsup("unsafe.Pointer -> %s", to)
			}
			return Val{T: to, C: []Term{v.C[0]}}
		}
		return Val{T: to, C: v.C, Pl: v.Pl}
	}
	unsup("convert %s -> %s", from, to)
	return Val{}
}

func isByteSlice(t types.Type) bool {
	s, ok := t.Underlying().(*types.Slice)
	if !ok {
		return false
	}
	b, ok := s.Elem().Underlying().(*types.Basic)
	return ok && b.Kind() == types.Uint8
}

func isUnsafePointer(t types.Type) bool {
	b, ok := t.Underlying().(*types.Basic)
	return ok && b.Kind() == types.UnsafePointer
}

func (fr *Frame) makeInterface(x *ssa.MakeInterface, st *State) Val {
	vc := fr.vc
	v := fr.value(x.X)
	tid := vc.eng.typeID(x.X.Type())
	var payload Term
	switch len(v.C) {
	case 1:
		if v.Pl != nil && v.Pl.Path != "" {
			unsup("interior pointer in interface")
		}
		payload = v.C[0]
		if isBool(v.T) {
			payload = ite(v.C[0], "1", "0")
		}
	default:
		// box the components with an injective uninterpreted constructor
		var sorts []string
		for _, l := range leaves(v.T) {
			sorts = append(sorts, l.Sort)
		}
		if len(v.C) == 0 {
			payload = "0"
		} else {
			f := vc.declareFun("box$"+typeKey(x.X.Type()), sorts, "Int")
			payload = sx(f, v.C...)
			vc.boxed(f, x.X.Type(), v.C)
		}
	}
	r := Val{T: x.Type(), C: []Term{itoa(int64(tid)), payload}}
	r.Fv = []Val{v} // remember the concrete value for devirtualisation
	return r
}

func (vc *VC) boxed(f string, t types.Type, comps []Term) {
	// projections make the constructor injective
	for i, l := range leaves(t) {
		g := vc.declareFun(fmt.Sprintf("unbox$%s$%d", typeKey(t), i), []string{"Int"}, l.Sort)
		vc.assume(eq(sx(g, sx(f, comps...)), comps[i]))
	}
}

func (fr *Frame) typeAssert(x *ssa.TypeAssert, st *State, rch Term) Val {
	vc := fr.vc
	v := fr.value(x.X)
	var ok Term
	var res Val
	if _, isIface := x.AssertedType.Underlying().(*types.Interface); isIface {
		// interface-to-interface: dynamic type implements it?
		f := vc.declareFun("implements$"+typeKey(x.AssertedType), []string{"Int"}, "Bool")
		ok = and(not(eq(v.C[0], "0")), sx(f, v.C[0]))
		// statically known implementers
		if len(v.Fv) == 1 {
			if types.Implements(v.Fv[0].T, x.AssertedType.Underlying().(*types.Interface)) {
				ok = "true"
			} else {
				ok = "false"
			}
		} else {
			vc.eng.implementsFacts(vc, f, x.AssertedType)
		}
		res = Val{T: x.AssertedType, C: []Term{v.C[0], v.C[1]}, Fv: v.Fv}
	} else {
		tid := vc.eng.typeID(x.AssertedType)
		ok = eq(v.C[0], itoa(int64(tid)))
		ls := leaves(x.AssertedType)
		res = Val{T: x.AssertedType}
		if len(ls) == 1 {
			if ls[0].Sort == "Bool" {
				res.C = []Term{eq(v.C[1], "1")}
			} else {
				res.C = []Term{v.C[1]}
			}
		} else {
			for i, l := range ls {
				g := vc.declareFun(fmt.Sprintf("unbox$%s$%d", typeKey(x.AssertedType), i), []string{"Int"}, l.Sort)
				res.C = append(res.C, sx(g, v.C[1]))
			}
		}
		if len(v.Fv) == 1 && types.Identical(v.Fv[0].T, x.AssertedType) {
			res = v.Fv[0]
		}
	}
	if !x.CommaOk {
		fr.safety("typeassert", x, rch, ok)
		vc.assumeIf(and(rch, ok), vc.wf(res, st))
		return res
	}
	okn := vc.define("taok", "Bool", ok)
	vc.assumeIf(and(rch, okn), vc.wf(res, st))
	// zero value when !ok
	z := vc.zeroVal(x.AssertedType)
	out := Val{T: x.Type()}
	for i := range res.C {
		out.C = append(out.C, ite(okn, res.C[i], z.C[i]))
	}
	out.C = append(out.C, okn)
	out.Fv = []Val{res, {}}
	return out
}

func (fr *Frame) checkGlobalStore(pl *Place, ins ssa.Instruction, rch Term) {
	// stores to package-level variables are handled by the frame-global sweep;
	// in the VC they are ordinary stores to negative addresses.
}

var _ = strings.HasPrefix

func litBig(t Term) (*bigInt, bool) {
	if strings.HasPrefix(t, "(- ") && strings.HasSuffix(t, ")") {
		if n, ok := new(bigInt).SetString(t[3:len(t)-1], 10); ok {
			return n.Neg(n), true
		}
		return nil, false
	}
	if len(t) == 0 || t[0] < '0' || t[0] > '9' {
		return nil, false
	}
	return new(bigInt).SetString(t, 10)
}

func foldConst(op token.Token, rt, opT types.Type, a, b *bigInt) (Term, bool) {
	boolT := func(v bool) (Term, bool) {
		if v {
			return "true", true
		}
		return "false", true
	}
	switch op {
	case token.LSS:
		return boolT(a.Cmp(b) < 0)
	case token.LEQ:
		return boolT(a.Cmp(b) <= 0)
	case token.GTR:
		return boolT(a.Cmp(b) > 0)
	case token.GEQ:
		return boolT(a.Cmp(b) >= 0)
	case token.ADD, token.SUB, token.MUL:
		if !isInteger(rt) {
			return "", false
		}
		var r *bigInt
		switch op {
		case token.ADD:
			r = new(bigInt).Add(a, b)
		case token.SUB:
			r = new(bigInt).Sub(a, b)
		default:
			r = new(bigInt).Mul(a, b)
		}
		// wrap into the type's range
		bits := intBits(rt)
		m := pow2(bits)
		r.Mod(r, m)
		if !isUnsigned(rt) && r.Cmp(pow2(bits-1)) >= 0 {
			r.Sub(r, m)
		}
		return bigTerm(r), true
	}
	return "", false
}
