package main

// Calls: builtins, static calls (by contract or inlined), interface invokes
// (interface-method specs), function values.

import (
	"math/big"
	"fmt"
	"go/types"
	"sort"
	"strings"

	"golang.org/x/tools/go/ssa"
)

func (fr *Frame) call(x *ssa.Call, st *State, rch Term) Val {
	common := x.Common()
	var args []Val
	for _, a := range common.Args {
		args = append(args, fr.value(a))
	}
	if common.IsInvoke() {
		recv := fr.value(common.Value)
		return fr.invoke(x, recv, common.Method, args, st, rch)
	}
	switch callee := common.Value.(type) {
	case *ssa.Builtin:
		return fr.builtin(x, callee, args, st, rch)
	case *ssa.Function:
		return fr.static(x, callee, args, nil, st, rch)
	case *ssa.MakeClosure:
		var fvs []Val
		for _, b := range callee.Bindings {
			fvs = append(fvs, fr.value(b))
		}
		return fr.static(x, callee.Fn.(*ssa.Function), args, fvs, st, rch)
	}
	fv := fr.value(common.Value)
	if fn, ok := fv.Fn.(*ssa.Function); ok {
		return fr.static(x, fn, args, fv.Fv, st, rch)
	}
	return fr.dynamicCall(x, fv, args, st, rch)
}

func (fr *Frame) builtin(x *ssa.Call, b *ssa.Builtin, args []Val, st *State, rch Term) Val {
	vc := fr.vc
	switch b.Name() {
	case "len":
		a := args[0]
		switch a.T.Underlying().(type) {
		case *types.Slice, *types.Basic:
			return Val{T: x.Type(), C: []Term{a.C[1]}}
		case *types.Map:
			return fr.mapLen(a, st, rch)
		case *types.Pointer: // *[N]T
			at := a.T.Underlying().(*types.Pointer).Elem().Underlying().(*types.Array)
			return Val{T: x.Type(), C: []Term{itoa(at.Len())}}
		}
		unsup("len of %s", a.T)
	case "cap":
		a := args[0]
		if _, ok := a.T.Underlying().(*types.Slice); ok {
			return Val{T: x.Type(), C: []Term{a.C[2]}}
		}
		unsup("cap of %s", a.T)
	case "append":
		return fr.appendCall(x, args[0], args[1], st, rch)
	case "copy":
		dst, src := args[0], args[1]
		n := vc.define("cpn", "Int", ite(sx("<", dst.C[1], src.C[1]), dst.C[1], src.C[1]))
		elem := dst.T.Underlying().(*types.Slice).Elem()
		fr.copyRegion(elem, dst.C[0], src.C[0], n, st, "true", true)
		return Val{T: x.Type(), C: []Term{n}}
	case "delete":
		fr.mapDelete(args[0], args[1], st, rch)
		return Val{T: x.Type()}
	case "print", "println":
		return Val{T: x.Type()}
	}
	unsup("builtin %s", b.Name())
	return Val{}
}

// copyRegion: fam'[k] = (cond && dst<=k<dst+n) ? fam[src+(k-dst)] : fam[k] for
// every leaf family of elem.  Constant small n is expanded into stores.
func (fr *Frame) copyRegion(elem types.Type, dst, src, n Term, st *State, cond Term, track bool) {
	vc := fr.vc
	for _, l := range leaves(elem) {
		fam := family(elem, l.key())
		vc.regFam(fam, l.Sort)
		old := vc.get(st, fam)
		if k, ok := litInt(n); ok && k <= 16 {
			t := old
			for i := int64(0); i < k; i++ {
				t = store(t, adr(dst, itoa(i)), sel(old, adr(src, itoa(i))))
			}
			vc.set(st, fam, ite(cond, t, old))
		} else {
			nw := vc.fresh(fam+"~cp", vc.famSort(fam))
			vc.assume(fmt.Sprintf("(forall ((k Int)) (! (= (select %s k) (ite (and %s (<= %s k) (< k (+ %s %s))) (select %s %s) (select %s k))) :pattern ((select %s k))))",
				nw, cond, dst, dst, n, old, adr(src, sx("-", "k", dst)), old, nw))
			st.m[fam] = nw
		}
		if track {
			fr.wrote(fam)
		}
	}
}

func (fr *Frame) appendCall(x *ssa.Call, s, t Val, st *State, rch Term) Val {
	vc := fr.vc
	elem := s.T.Underlying().(*types.Slice).Elem()
	var tarr, tlen Term
	if isString(t.T) {
		tarr, tlen = t.C[0], t.C[1]
	} else {
		tarr, tlen = t.C[0], t.C[1]
	}
	newLen := vc.define("aplen", "Int", add(s.C[1], tlen))
	inPlace := vc.define("apinpl", "Bool", sx("<=", newLen, s.C[2]))
	// reallocation: fresh array of some capacity >= newLen
	newCap := vc.fresh("apcap", "Int")
	vc.assume(and(sx("<=", newLen, newCap), sx("<=", newCap, maxLenT)))
	a := vc.get(st, "$alloc")
	fresh := vc.define("apnew", "Int", a)
	vc.assume(sx("<", "0", fresh))
	vc.set(st, "$alloc", ite(inPlace, a, sx("+", a, newCap, "1")))
	// Go: append(nil, empty...) stays nil; append of nothing in place keeps s
	arr := vc.define("aparr", "Int", ite(inPlace, s.C[0], fresh))
	cp := vc.define("apcp", "Int", ite(inPlace, s.C[2], newCap))
	// obligations after an append may be split on "in place" vs "reallocated"
	if len(vc.caseGroups) < 6 {
		vc.caseGroups = append(vc.caseGroups, caseGroup{conds: []Term{inPlace, not(inPlace)}, late: true, nAssert: len(vc.asserts)})
	}
	// contents
	// 1. reallocation copies the old elements (reads from the old state)
	if n, ok := litInt(s.C[1]); ok && n == 0 {
		// nothing to copy
	} else {
		fr.copyRegion(elem, fresh, s.C[0], s.C[1], st, not(inPlace), true)
	}
	// 2. the appended elements
	fr.copyRegion(elem, adr(arr, s.C[1]), tarr, tlen, st, "true", true)
	return Val{T: x.Type(), C: []Term{arr, newLen, cp}}
}

// ---------------------------------------------------------------------------
// static calls

func (fr *Frame) static(x *ssa.Call, fn *ssa.Function, args []Val, fvs []Val, st *State, rch Term) Val {
	vc := fr.vc
	eng := vc.eng
	if in := intrinsics[fn.String()]; in != nil {
		return in(fr, x, args, st, rch)
	}
	c := eng.contractOf(fn)
	site := fr.siteOf(x, "call:"+shortFn(fn))
	if c != nil && (c.hasCallContract() || c.Trusted) {
		c.used = true
		return fr.callByContract(x, fn, c, args, st, rch, site)
	}
	if fn.Blocks == nil {
		return fr.unknownCall(x, fn.String(), st, rch)
	}
	if !eng.inlinable(fn) {
		return fr.unknownCall(x, fn.String(), st, rch)
	}
	res, out, exit := vc.run(fn, args, fvs, st, rch, fr, site)
	// continue in the caller with the callee's exit state
	for k := range st.m {
		delete(st.m, k)
	}
	for k, v := range out.m {
		st.m[k] = v
	}
	// paths on which the callee does not return (panic) are excluded by its
	// own obligations; the caller continues under exit
	vc.assumeIf(rch, exit)
	res.T = x.Type()
	if tt, ok := x.Type().(*types.Tuple); ok && tt.Len() == 0 {
		return Val{T: x.Type()}
	}
	return res
}

func (fr *Frame) unknownCall(x *ssa.Call, name string, st *State, rch Term) Val {
	vc := fr.vc
	if top := vc.topFrame; top != nil && top.contract != nil && top.contract.Abstract {
		// nothing is known about the state after the call: in an "abstract"
		// function the path ends here instead of continuing with arbitrary memory
		unsup("unmodelled call %s", name)
	}
	vc.note("unmodelled call %s: all memory havocked, result unconstrained", name)
	vc.eng.unmodelled[name]++
	var fams []string
	for fam := range vc.eng.famSorts {
		fams = append(fams, fam)
	}
	sort.Strings(fams)
	for _, fam := range fams {
		vc.havocFam(st, fam)
	}
	var gs []string
	for g := range ghostSorts {
		gs = append(gs, g)
	}
	vc.havocGhostSet(st, gs)
	old := vc.get(st, "$alloc")
	na := vc.fresh("$alloc~h", "Int")
	vc.assume(sx("<=", old, na))
	st.m["$alloc"] = na
	r := vc.freshVal(fr.prefix+"."+x.Name(), x.Type())
	vc.assumeIf(rch, vc.wf(r, st))
	return r
}

func (fr *Frame) callByContract(x *ssa.Call, fn *ssa.Function, c *Contract, args []Val, st *State, rch Term, site string) Val {
	vc := fr.vc
	vc.calledByContract[fn] = true
	pre := st.clone()
	env := &SpecEnv{fr: fr, fn: fn, params: map[string]Val{}, cur: pre, old: pre, bound: map[string]SVal{}, lets: map[string]SVal{}, callee: true}
	for i, p := range fn.Params {
		env.params[p.Name()] = args[i]
	}
	env.evalLets(c, false)
	for _, cl := range c.byKind("requires") {
		t := env.boolOf(cl.Expr)
		s := site + ":" + normSrc(cl.Src)
		if cl.Label != "" {
			s = site + "." + cl.Label
		}
		vc.oblige("requires", s, rch, t, fr.props, !fr.top, vc.pos(x.Pos()))
	}
	// termination of recursion: callee's variant is smaller than the caller's
	if decs := funcDecreases(c); len(decs) > 0 {
		top := fr
		_ = top
		if tc := vc.topContract; tc != nil && vc.eng.reaches(fn, vc.topFn) {
			if tdecs := funcDecreases(tc); len(tdecs) > 0 {
				callee := env.intOf(decs[0].Expr)
				vc.oblige("decreases", site+":recursion", rch, and(sx("<=", "0", callee), sx("<", callee, vc.topVariant)), fr.props, !fr.top, vc.pos(x.Pos()))
			}
		}
	}
	// frame
	assigns := c.byKind("assigns")
	if len(assigns) > 0 {
		for _, cl := range assigns {
			env.havocAssigns(cl, st)
		}
		fr.havocAllocAndGhostDefaults(fn, st)
	} else {
		ms := vc.eng.modsetOf(fn)
		fr.havocModset(fr.translateModset(ms, fn, args), st)
	}
	res := vc.freshVal(fr.prefix+"."+x.Name(), fn.Signature.Results())
	vc.assumeIf(rch, vc.wf(res, st))
	post := &SpecEnv{fr: fr, fn: fn, params: env.params, cur: st, old: pre, bound: map[string]SVal{}, lets: map[string]SVal{}, callee: true}
	post.bindResults(fn, res)
	post.evalLets(c, true)
	for _, cl := range c.byKind("ensures") {
		vc.assumeIf(rch, post.boolOf(cl.Expr))
	}
	if c.Trusted {
		vc.eng.trustedUsed[c.Pkg+"::"+c.Key] = true
	}
	res.T = x.Type()
	if tt, ok := x.Type().(*types.Tuple); ok && tt.Len() == 0 {
		return Val{T: x.Type()}
	}
	return res
}

func (fr *Frame) havocModset(ms *modset, st *State) {
	vc := fr.vc
	if ms.all {
		var fams []string
		for fam := range vc.eng.famSorts {
			fams = append(fams, fam)
		}
		sort.Strings(fams)
		for _, fam := range fams {
			vc.havocFam(st, fam)
		}
		var gs []string
		for g := range ghostSorts {
			gs = append(gs, g)
		}
		vc.havocGhostSet(st, gs)
	} else {
		var fams []string
		for fam := range ms.fams {
			fams = append(fams, fam)
		}
		sort.Strings(fams)
		var gs []string
		for _, fam := range fams {
			if _, isGhost := ghostSorts[fam]; isGhost {
				gs = append(gs, fam)
			} else {
				vc.regFam(fam, ms.fams[fam])
				vc.havocFam(st, fam)
			}
		}
		vc.havocGhostSet(st, gs)
	}
	if ms.all || ms.allocs {
		old := vc.get(st, "$alloc")
		na := vc.fresh("$alloc~h", "Int")
		vc.assume(sx("<=", old, na))
		st.m["$alloc"] = na
	}
}

// with an explicit assigns clause, the allocation counter may still grow if
// the callee allocates.
func (fr *Frame) havocAllocAndGhostDefaults(fn *ssa.Function, st *State) {
	vc := fr.vc
	ms := vc.eng.modsetOf(fn)
	if ms.all || ms.allocs {
		old := vc.get(st, "$alloc")
		na := vc.fresh("$alloc~h", "Int")
		vc.assume(sx("<=", old, na))
		st.m["$alloc"] = na
	}
}

// ---------------------------------------------------------------------------
// dynamic calls of function values

func (fr *Frame) dynamicCall(x *ssa.Call, fv Val, args []Val, st *State, rch Term) Val {
	if spec := fr.vc.eng.funcTypeSpec(x.Common().Value.Type()); spec != nil {
		return spec(fr, x, fv, args, st, rch)
	}
	return fr.unknownCall(x, "func value of type "+x.Common().Value.Type().String(), st, rch)
}

// ---------------------------------------------------------------------------
// intrinsics: std functions given an exact or assumed meaning

type intrinsic func(fr *Frame, x *ssa.Call, args []Val, st *State, rch Term) Val

var intrinsics = map[string]intrinsic{}

func init() {
	id := func(fr *Frame, x *ssa.Call, args []Val, st *State, rch Term) Val {
		return Val{T: x.Type(), C: args[0].C}
	}
	// floats are modelled by their bit patterns: these are identities
	intrinsics["math.Float64bits"] = id
	intrinsics["math.Float32bits"] = id
	intrinsics["math.Float64frombits"] = id
	intrinsics["math.Float32frombits"] = id
	intrinsics["math.IsNaN"] = func(fr *Frame, x *ssa.Call, args []Val, st *State, rch Term) Val {
		// exponent all ones, mantissa non-zero
		b := args[0].t()
		return Val{T: x.Type(), C: []Term{and(eq(sx("mod", sx("div", b, pow2T(52)), "2048"), "2047"), not(eq(sx("mod", b, pow2T(52)), "0")))}}
	}
	intrinsics["math.IsInf"] = func(fr *Frame, x *ssa.Call, args []Val, st *State, rch Term) Val {
		// IEEE 754: infinite iff exponent all ones and mantissa zero; the sign is bit 63
		b := args[0].t()
		sign := args[1].t()
		inf := and(eq(sx("mod", sx("div", b, pow2T(52)), "2048"), "2047"), eq(sx("mod", b, pow2T(52)), "0"))
		neg := sx(">=", b, pow2T(63))
		return Val{T: x.Type(), C: []Term{and(inf, or(eq(sign, "0"), and(sx(">", sign, "0"), not(neg)), and(sx("<", sign, "0"), neg)))}}
	}
	// internal/unsafe: same memory, no copy (assumed from the unsafe body)
	intrinsics["github.com/elastic/go-structform/internal/unsafe.Str2Bytes"] = func(fr *Frame, x *ssa.Call, args []Val, st *State, rch Term) Val {
		s := args[0]
		return Val{T: x.Type(), C: []Term{s.C[0], s.C[1], s.C[1]}}
	}
	intrinsics["github.com/elastic/go-structform/internal/unsafe.Bytes2Str"] = func(fr *Frame, x *ssa.Call, args []Val, st *State, rch Term) Val {
		b := args[0]
		return Val{T: x.Type(), C: []Term{b.C[0], b.C[1]}}
	}
	intrinsics["errors.New"] = func(fr *Frame, x *ssa.Call, args []Val, st *State, rch Term) Val {
		vc := fr.vc
		a := vc.get(st, "$alloc")
		addr := vc.define("err", "Int", a)
		vc.assume(sx("<", "0", addr))
		vc.set(st, "$alloc", add(a, "1"))
		return Val{T: x.Type(), C: []Term{itoa(int64(vc.eng.typeIDByName("*errors.errorString"))), addr}}
	}
	freshErr := func(fr *Frame, x *ssa.Call, args []Val, st *State, rch Term) Val {
		vc := fr.vc
		a := vc.get(st, "$alloc")
		addr := vc.define("err", "Int", a)
		vc.assume(sx("<", "0", addr))
		vc.set(st, "$alloc", add(a, "1"))
		return Val{T: x.Type(), C: []Term{itoa(int64(vc.eng.typeIDByName("*fmt.wrapError"))), addr}}
	}
	intrinsics["fmt.Errorf"] = freshErr
}

func (eng *Engine) inlinable(fn *ssa.Function) bool {
	if fn.Pkg == nil {
		// synthetic wrappers (promoted methods, bound methods) have bodies
		return fn.Blocks != nil
	}
	p := fn.Pkg.Pkg.Path()
	if strings.HasPrefix(p, eng.modPath) {
		return true
	}
	switch p {
	case "encoding/binary", "unicode/utf8", "unicode/utf16", "bytes", "math/bits":
		return true
	}
	return false
}

// encoding/binary.BigEndian: arithmetic definitions.  PutUintN(b, v) stores the
// unique base-256 digits c_i of v (v = sum c_i*256^(n-1-i), 0 <= c_i <= 255);
// UintN(b) is that sum.  This is the meaning of the shift/convert bodies in
// the standard library (byte(v>>k) = (v div 2^k) mod 256); using the digit
// form keeps the queries linear.
func init() {
	for _, n := range []int{2, 4, 8} {
		n := n
		bits := n * 8
		put := func(fr *Frame, x *ssa.Call, args []Val, st *State, rch Term) Val {
			vc := fr.vc
			b, v := args[len(args)-2], args[len(args)-1]
			fr.safety("bounds", x, rch, sx("<=", itoa(int64(n)), b.C[1]))
			vc.regFam("E$uint8", "Int")
			h := vc.get(st, "E$uint8")
			var sum []Term
			for i := 0; i < n; i++ {
				c := vc.fresh(fmt.Sprintf("be%d.c%d", bits, i), "Int")
				vc.assume(and(sx("<=", "0", c), sx("<=", c, "255")))
				if i == n-1 {
					sum = append(sum, c)
				} else {
					sum = append(sum, sx("*", pow2T(uint(8*(n-1-i))), c))
				}
				h = store(h, adr(b.C[0], itoa(int64(i))), c)
			}
			vc.assume(eq(v.t(), sx("+", sum...)))
			vc.set(st, "E$uint8", h)
			return Val{T: x.Type()}
		}
		get := func(fr *Frame, x *ssa.Call, args []Val, st *State, rch Term) Val {
			vc := fr.vc
			b := args[len(args)-1]
			fr.safety("bounds", x, rch, sx("<=", itoa(int64(n)), b.C[1]))
			vc.regFam("E$uint8", "Int")
			h := vc.get(st, "E$uint8")
			var sum []Term
			for i := 0; i < n; i++ {
				c := vc.sel(h, adr(b.C[0], itoa(int64(i))))
				vc.assume(implies(rch, and(sx("<=", "0", c), sx("<=", c, "255"))))
				if i == n-1 {
					sum = append(sum, c)
				} else {
					sum = append(sum, sx("*", pow2T(uint(8*(n-1-i))), c))
				}
			}
			return Val{T: x.Type(), C: []Term{vc.define("be", "Int", sx("+", sum...))}}
		}
		intrinsics[fmt.Sprintf("(encoding/binary.bigEndian).PutUint%d", bits)] = put
		intrinsics[fmt.Sprintf("(encoding/binary.bigEndian).Uint%d", bits)] = get
		m := newModset()
		m.fams["E$uint8"] = "Int"
		intrinsicMods[fmt.Sprintf("(encoding/binary.bigEndian).PutUint%d", bits)] = m
	}
}

func funcDecreases(c *Contract) []*Clause {
	var out []*Clause
	for _, cl := range c.Clauses {
		if cl.Kind == "decreases" && cl.Loop == 0 {
			out = append(out, cl)
		}
	}
	return out
}

// reaches: can a call of from lead to a call of to (static call graph)?
func (eng *Engine) reaches(from, to *ssa.Function) bool {
	seen := map[*ssa.Function]bool{}
	var dfs func(f *ssa.Function) bool
	dfs = func(f *ssa.Function) bool {
		if f == to {
			return true
		}
		if seen[f] {
			return false
		}
		seen[f] = true
		for _, b := range f.Blocks {
			for _, ins := range b.Instrs {
				if c, ok := ins.(*ssa.Call); ok {
					if callee := c.Common().StaticCallee(); callee != nil && callee.Blocks != nil && eng.inlinable(callee) {
						if dfs(callee) {
							return true
						}
					}
				}
			}
		}
		return false
	}
	return dfs(from)
}

// translateModset: the callee's write set names families relative to the
// pointee types of its parameters; an argument that points into the middle of
// a larger object (&dec.p) lives in the caller's families of the enclosing
// object, which must be havocked as well.
func (fr *Frame) translateModset(ms *modset, fn *ssa.Function, args []Val) *modset {
	if ms.all {
		return ms
	}
	var out *modset
	for i, p := range fn.Params {
		if i >= len(args) || args[i].Pl == nil {
			continue
		}
		pl := args[i].Pl
		pt, ok := p.Type().Underlying().(*types.Pointer)
		if !ok || pl.Local != "" {
			continue
		}
		if pl.Path == "" && types.Identical(pl.Root, pt.Elem()) {
			continue
		}
		if !isStructObj(pt.Elem()) {
			continue
		}
		from := "F$" + typeKey(pt.Elem()) + "$"
		to := "F$" + typeKey(pl.Root) + "$" + pl.Path + "."
		for fam, srt := range ms.fams {
			if strings.HasPrefix(fam, from) {
				if out == nil {
					out = newModset()
					out.union(ms)
				}
				out.fams[to+fam[len(from):]] = srt
			}
		}
	}
	if out == nil {
		return ms
	}
	return out
}

// strconv / utf8: assumed contracts (documentation of the standard library).
func init() {
	// strconv.AppendFloat(dst, f, fmt, prec, bitSize): appends 1..32 bytes; for a
	// finite f in format 'g' they are drawn from "0123456789+-.e", with at most
	// one '.' which precedes the (at most one) 'e'.
	intrinsics["strconv.AppendFloat"] = func(fr *Frame, x *ssa.Call, args []Val, st *State, rch Term) Val {
		vc := fr.vc
		dst := args[0]
		n := vc.fresh("appendfloat.n", "Int")
		vc.assume(and(sx("<=", "1", n), sx("<=", n, "32")))
		newLen := vc.define("aplen", "Int", add(dst.C[1], n))
		inPlace := vc.define("apinpl", "Bool", sx("<=", newLen, dst.C[2]))
		newCap := vc.fresh("apcap", "Int")
		vc.assume(and(sx("<=", newLen, newCap), sx("<=", newCap, maxLenT)))
		a := vc.get(st, "$alloc")
		fresh := vc.define("apnew", "Int", a)
		vc.assume(sx("<", "0", fresh))
		vc.set(st, "$alloc", ite(inPlace, a, sx("+", a, newCap, "1")))
		arr := vc.define("aparr", "Int", ite(inPlace, dst.C[0], fresh))
		cp := vc.define("apcp", "Int", ite(inPlace, dst.C[2], newCap))
		fr.copyRegion(types.Typ[types.Uint8], fresh, dst.C[0], dst.C[1], st, not(inPlace), true)
		// the appended bytes: unknown text with the syntactic shape of a float
		vc.havocElems(types.Typ[types.Uint8], adr(arr, dst.C[1]), n, st, fr)
		h := vc.get(st, "E$uint8")
		base := adr(arr, dst.C[1])
		bits := args[1].t()
		finite := not(eq(sx("mod", sx("div", bits, pow2T(52)), "2048"), "2047"))
		dot := vc.fresh("appendfloat.dot", "Int")
		e := vc.fresh("appendfloat.e", "Int")
		vc.assume(implies(finite, fmt.Sprintf("(forall ((k Int)) (! (=> (and (<= 0 k) (< k %s)) (let ((c (select %s %s))) (and (or (and (<= 48 c) (<= c 57)) (= c 43) (= c 45) (= c 46) (= c 101)) (= (= c 46) (= k %s)) (= (= c 101) (= k %s))))) :pattern ((select %s %s))))",
			n, h, adr(base, "k"), dot, e, h, adr(base, "k"))))
		// dot/e positions: -1 when absent; '.' precedes 'e'
		vc.assume(and(sx("<=", "(- 1)", dot), sx("<", dot, n), sx("<=", "(- 1)", e), sx("<", e, n), implies(and(sx(">=", dot, "0"), sx(">=", e, "0")), sx("<", dot, e))))
		return Val{T: x.Type(), C: []Term{arr, newLen, cp}}
	}
	m := newModset()
	m.fams["E$uint8"] = "Int"
	m.allocs = true
	intrinsicMods["strconv.AppendFloat"] = m

	// strconv.AppendUint(dst, u, 10): appends the decimal digits of u (no sign,
	// no leading zero): n = number of digits, all bytes are digits and their
	// decimal value (jsonDec20, the positional-notation definition) is u.
	intrinsics["strconv.AppendUint"] = func(fr *Frame, x *ssa.Call, args []Val, st *State, rch Term) Val {
		vc := fr.vc
		dst := args[0]
		u := args[1].t()
		if args[2].t() != "10" {
			unsup("strconv.AppendUint with base %s", args[2].t())
		}
		n := vc.fresh("appenduint.n", "Int")
		// 10^(n-1) <= u < 10^n (n = 1 for u < 10)
		var cs []Term
		cs = append(cs, sx("<=", "1", n), sx("<=", n, "20"))
		p10 := big.NewInt(1)
		for k := 1; k <= 20; k++ {
			lo := new(big.Int).Set(p10)
			p10 = new(big.Int).Mul(p10, big.NewInt(10))
			if k == 1 {
				cs = append(cs, sx("=", eq(n, "1"), sx("<", u, "10")))
				continue
			}
			cs = append(cs, sx("=", eq(n, itoa(int64(k))), and(sx("<=", lo.String(), u), sx("<", u, p10.String()))))
		}
		vc.assume(and(cs...))
		newLen := vc.define("aulen", "Int", add(dst.C[1], n))
		inPlace := vc.define("auinpl", "Bool", sx("<=", newLen, dst.C[2]))
		newCap := vc.fresh("aucap", "Int")
		vc.assume(and(sx("<=", newLen, newCap), sx("<=", newCap, maxLenT)))
		a := vc.get(st, "$alloc")
		fresh := vc.define("aunew", "Int", a)
		vc.assume(sx("<", "0", fresh))
		vc.set(st, "$alloc", ite(inPlace, a, sx("+", a, newCap, "1")))
		arr := vc.define("auarr", "Int", ite(inPlace, dst.C[0], fresh))
		cp := vc.define("aucp", "Int", ite(inPlace, dst.C[2], newCap))
		fr.copyRegion(types.Typ[types.Uint8], fresh, dst.C[0], dst.C[1], st, not(inPlace), true)
		vc.havocElems(types.Typ[types.Uint8], adr(arr, dst.C[1]), n, st, fr)
		h := vc.get(st, "E$uint8")
		base := adr(arr, dst.C[1])
		var bs []Term
		bs = append(bs, n)
		for k := 0; k < 20; k++ {
			bs = append(bs, vc.sel(h, adr(base, itoa(int64(k)))))
		}
		vc.assume(and(sx("jsonAllDigits20", bs...), eq(sx("jsonDec20", bs...), u)))
		return Val{T: x.Type(), C: []Term{arr, newLen, cp}}
	}
	intrinsicMods["strconv.AppendUint"] = m

	// utf8.DecodeRuneInString(s): 1 <= size <= min(4, len(s)) for non-empty s;
	// an ASCII byte decodes to itself with size 1; a multi-byte result consists
	// of bytes >= 0x80; (RuneError, 1) signals an invalid sequence.
	decode := func(fr *Frame, x *ssa.Call, args []Val, st *State, rch Term) Val {
		vc := fr.vc
		s := args[0]
		vc.regFam("E$uint8", "Int")
		h := vc.get(st, "E$uint8")
		r := vc.fresh("decoderune.r", "Int")
		size := vc.fresh("decoderune.size", "Int")
		b0 := vc.sel(h, adr(s.C[0], "0"))
		ln := s.C[1]
		vc.assume(and(
			implies(eq(ln, "0"), and(eq(r, "65533"), eq(size, "0"))),
			implies(sx(">", ln, "0"), and(sx("<=", "1", size), sx("<=", size, "4"), sx("<=", size, ln), sx("<=", "0", r), sx("<=", r, "1114111"))),
			implies(and(sx(">", ln, "0"), sx("<", b0, "128")), and(eq(size, "1"), eq(r, b0))),
			implies(and(sx(">", ln, "0"), sx(">=", b0, "128")), sx(">=", r, "128")),
			implies(sx(">", size, "1"), and(sx(">=", vc.sel(h, adr(s.C[0], "1")), "128"), implies(sx(">", size, "2"), sx(">=", vc.sel(h, adr(s.C[0], "2")), "128")), implies(sx(">", size, "3"), sx(">=", vc.sel(h, adr(s.C[0], "3")), "128")))),
			// surrogate halves are never decoded
			not(and(sx("<=", "55296", r), sx("<=", r, "57343")))))
		return Val{T: x.Type(), C: []Term{r, size}}
	}
	intrinsics["unicode/utf8.DecodeRuneInString"] = decode
	intrinsics["unicode/utf8.DecodeRune"] = decode
}

// more std intrinsics used by the JSON parser (exact definitions where the
// documentation gives one, otherwise assumed contracts)
func init() {
	intrinsics["unicode.IsSpace"] = func(fr *Frame, x *ssa.Call, args []Val, st *State, rch Term) Val {
		r := args[0].t()
		vc := fr.vc
		f := vc.declareFun("unicode.IsSpace.wide", []string{"Int"}, "Bool")
		latin := or(eq(r, "9"), eq(r, "10"), eq(r, "11"), eq(r, "12"), eq(r, "13"), eq(r, "32"), eq(r, "133"), eq(r, "160"))
		return Val{T: x.Type(), C: []Term{ite(sx("<", r, "256"), latin, sx(f, r))}}
	}
	intrinsics["unicode/utf16.IsSurrogate"] = func(fr *Frame, x *ssa.Call, args []Val, st *State, rch Term) Val {
		r := args[0].t()
		return Val{T: x.Type(), C: []Term{and(sx("<=", "55296", r), sx("<", r, "57344"))}}
	}
	intrinsics["unicode/utf16.DecodeRune"] = func(fr *Frame, x *ssa.Call, args []Val, st *State, rch Term) Val {
		r1, r2 := args[0].t(), args[1].t()
		ok := and(sx("<=", "55296", r1), sx("<", r1, "56320"), sx("<=", "56320", r2), sx("<", r2, "57344"))
		v := sx("+", sx("*", "1024", sx("-", r1, "55296")), sx("-", r2, "56320"), "65536")
		return Val{T: x.Type(), C: []Term{fr.vc.define("utf16dec", "Int", ite(ok, v, "65533"))}}
	}
	intrinsics["unicode/utf8.EncodeRune"] = func(fr *Frame, x *ssa.Call, args []Val, st *State, rch Term) Val {
		vc := fr.vc
		p, r := args[0], args[1].t()
		n := vc.define("runelen", "Int", ite(and(sx("<=", "0", r), sx("<", r, "128")), "1",
			ite(and(sx("<=", "0", r), sx("<", r, "2048")), "2",
				ite(or(sx("<", r, "0"), sx(">", r, "1114111"), and(sx("<=", "55296", r), sx("<", r, "57344"))), "3",
					ite(sx("<", r, "65536"), "3", "4")))))
		fr.safety("bounds", x, rch, sx("<=", n, p.C[1]))
		vc.havocElems(types.Typ[types.Uint8], p.C[0], n, st, fr)
		// the bytes written: UTF-8 (RFC 3629) of r, or of U+FFFD when r is not a
		// Unicode scalar value
		rr := vc.define("encrune", "Int", ite(or(sx("<", r, "0"), sx(">", r, "1114111"), and(sx("<=", "55296", r), sx("<", r, "57344"))), "65533", r))
		nh := vc.get(st, "E$uint8")
		at := func(k int) Term { return vc.sel(nh, adr(p.C[0], itoa(int64(k)))) }
		// stated with the spec symbol jsonUtf8Byte (spec/json.smt2: RFC 3629, uninterpreted with its
		// definition as an axiom) so that comparing with a contract needs equality of code points only
		ub := func(k int) Term { return sx("jsonUtf8Byte", rr, itoa(int64(k))) }
		vc.assume(and(
			eq(at(0), ub(0)),
			implies(sx(">=", n, "2"), eq(at(1), ub(1))),
			implies(sx(">=", n, "3"), eq(at(2), ub(2))),
			implies(eq(n, "4"), eq(at(3), ub(3)))))
		return Val{T: x.Type(), C: []Term{n}}
	}
	m := newModset()
	m.fams["E$uint8"] = "Int"
	intrinsicMods["unicode/utf8.EncodeRune"] = m
	intrinsics["strconv.ParseFloat"] = func(fr *Frame, x *ssa.Call, args []Val, st *State, rch Term) Val {
		vc := fr.vc
		f := vc.fresh("parsefloat", "Int")
		vc.assume(and(sx("<=", "0", f), sx("<", f, pow2T(64))))
		e := fr.freshError(fr.prefix + "." + x.Name() + ".err")
		vc.assume(not(eq(e.C[1], "(- 77)"))) // a *strconv.NumError, never io.EOF
		return Val{T: x.Type(), C: []Term{f, e.C[0], e.C[1]}}
	}
	intrinsics["strconv.ParseUint"] = func(fr *Frame, x *ssa.Call, args []Val, st *State, rch Term) Val {
		vc := fr.vc
		v := vc.fresh("parseuint", "Int")
		e := fr.freshError(fr.prefix + "." + x.Name() + ".err")
		vc.assume(not(eq(e.C[1], "(- 77)"))) // a *strconv.NumError, never io.EOF
		vc.assume(and(sx("<=", "0", v), sx("<", v, pow2T(64))))
		// base 16, at most 4 digits: the value is below 2^16
		if base, ok := litInt(args[1].t()); ok && base == 16 {
			vc.assume(implies(and(eq(e.C[0], "0"), sx("<=", args[0].C[1], "4")), sx("<", v, "65536")))
			// exactly 4 characters (strconv documentation: base 16 given explicitly
			// accepts neither sign, prefix nor underscore): succeeds iff all four are
			// hexadecimal digits, and then yields their positional value
			vc.regFam("E$uint8", "Int")
			h := vc.get(st, "E$uint8")
			hexd := func(k int) Term {
				b := vc.sel(h, adr(args[0].C[0], itoa(int64(k))))
				return ite(and(sx("<=", "48", b), sx("<=", b, "57")), sx("-", b, "48"),
					ite(and(sx("<=", "97", b), sx("<=", b, "102")), sx("-", b, "87"),
						ite(and(sx("<=", "65", b), sx("<=", b, "70")), sx("-", b, "55"), "(- 1)")))
			}
			d0, d1, d2, d3 := vc.define("hexd", "Int", hexd(0)), vc.define("hexd", "Int", hexd(1)), vc.define("hexd", "Int", hexd(2)), vc.define("hexd", "Int", hexd(3))
			okAll := and(sx("<=", "0", d0), sx("<=", "0", d1), sx("<=", "0", d2), sx("<=", "0", d3))
			val := sx("+", sx("*", "4096", d0), sx("*", "256", d1), sx("*", "16", d2), d3)
			vc.assume(implies(eq(args[0].C[1], "4"), and(eq(eq(e.C[0], "0"), okAll), implies(okAll, eq(v, val)))))
		}
		return Val{T: x.Type(), C: []Term{v, e.C[0], e.C[1]}}
	}
	// bytes.HasPrefix / bytes.Equal: content comparison
	intrinsics["bytes.HasPrefix"] = func(fr *Frame, x *ssa.Call, args []Val, st *State, rch Term) Val {
		vc := fr.vc
		s, p := args[0], args[1]
		vc.regFam("E$uint8", "Int")
		h := vc.get(st, "E$uint8")
		r := vc.fresh("hasprefix", "Bool")
		vc.nfresh++
		k := fmt.Sprintf("|k!%d|", vc.nfresh)
		body := fmt.Sprintf("(forall ((%s Int)) (! (=> (and (<= 0 %s) (< %s %s)) (= (select %s %s) (select %s %s))) :pattern ((select %s %s))))",
			k, k, k, p.C[1], h, adr(s.C[0], k), h, adr(p.C[0], k), h, adr(p.C[0], k))
		vc.assume(eq(r, and(sx(">=", s.C[1], p.C[1]), body)))
		return Val{T: x.Type(), C: []Term{r}}
	}
}
