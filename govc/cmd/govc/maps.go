package main

// Maps: not modelled yet (every map operation is an unsupported construct).

import (
	"golang.org/x/tools/go/ssa"
)

func (fr *Frame) mapLookup(x *ssa.Lookup, st *State, rch Term) Val {
	unsup("map lookup")
	return Val{}
}

func (fr *Frame) makeMap(x *ssa.MakeMap, st *State) Val {
	unsup("make(map)")
	return Val{}
}

func (fr *Frame) mapUpdate(x *ssa.MapUpdate, st *State, rch Term) {
	unsup("map update")
}

func (fr *Frame) mapLen(a Val, st *State, rch Term) Val {
	unsup("len(map)")
	return Val{}
}

func (fr *Frame) mapLenTerm(a Val, st *State) Term {
	unsup("len(map)")
	return ""
}

func (fr *Frame) mapDelete(m, k Val, st *State, rch Term) {
	unsup("delete(map)")
}

// applyGlobalInv: facts about values loaded from package-level variables.
func (fr *Frame) applyGlobalInv(pl *Place, v Val, st *State, rch Term) {
}
