package main

// Maps: read-only model.  A map value is an opaque handle m; len(m) is the
// uninterpreted maplen(m) >= 0 (maplen(nil) = 0); ranging over a map yields
// maplen(m) pairs of arbitrary (well-formed) keys and values in an arbitrary
// order.  make(map) yields a fresh empty handle (with an alloc-bound obligation on a
// reservation); lookups, updates and deletes are unsupported constructs.

import (
	"go/types"
	"sort"

	"golang.org/x/tools/go/ssa"
)

func (fr *Frame) mapLookup(x *ssa.Lookup, st *State, rch Term) Val {
	unsup("map lookup")
	return Val{}
}

// allocHintBound: the largest number of entries a make(map, n) may reserve.
// C14 ("an announced container length is a hint, not a licence to allocate"):
// a reservation taken from the wire must be bounded by a constant.
const allocHintBound = "65536"

// make(map[K]V) / make(map[K]V, n): a fresh, empty, non-nil handle.  Only the
// creation is modelled (lookups and updates stay unsupported); a reservation n
// carries the obligation `alloc-bound`: 0 <= n <= allocHintBound (a negative
// hint panics at run time).
func (fr *Frame) makeMap(x *ssa.MakeMap, st *State, rch Term) Val {
	vc := fr.vc
	if x.Reserve != nil && fr.allocBounded() {
		n := fr.value(x.Reserve).t()
		fr.safety("alloc-bound", x, rch, and(sx("<=", "0", n), sx("<=", n, allocHintBound)))
	}
	h := vc.fresh("mkmap", "Int")
	vc.assume(and(sx("<", "0", h), eq(sx("maplen", h), "0")))
	return Val{T: x.Type(), C: []Term{h}}
}

func (fr *Frame) mapUpdate(x *ssa.MapUpdate, st *State, rch Term) {
	unsup("map update")
}

func (fr *Frame) mapLen(a Val, st *State, rch Term) Val {
	return Val{T: types.Typ[types.Int], C: []Term{fr.mapLenTerm(a, st)}}
}

func (fr *Frame) mapLenTerm(a Val, st *State) Term {
	t := sx("maplen", a.C[0])
	fr.vc.assume(and(sx("<=", "0", t), sx("<=", t, "4611686018427387904"), implies(eq(a.C[0], "0"), eq(t, "0"))))
	return t
}

// iterKey: state cell holding the position of a map iterator.
func (fr *Frame) iterKey(r *ssa.Range) string {
	return "IT$" + fr.prefix + "." + r.Name()
}

func (fr *Frame) mapRange(x *ssa.Range, st *State) Val {
	if _, ok := x.X.Type().Underlying().(*types.Map); !ok {
		unsup("range over string")
	}
	st.m[fr.iterKey(x)] = "0"
	m := fr.value(x.X)
	return Val{T: x.Type(), C: []Term{m.C[0]}}
}

func (fr *Frame) mapNext(x *ssa.Next, st *State, rch Term) Val {
	r, ok := x.Iter.(*ssa.Range)
	if !ok || x.IsString {
		unsup("range over string")
	}
	vc := fr.vc
	it := fr.value(r)
	key := fr.iterKey(r)
	pos := vc.get(st, key)
	n := fr.mapLenTerm(Val{C: []Term{it.C[0]}}, st)
	okT := vc.define("mapnext", "Bool", sx("<", pos, n))
	tt := x.Type().(*types.Tuple)
	v := Val{T: tt, C: []Term{okT}}
	for i := 1; i < tt.Len(); i++ {
		et := tt.At(i).Type()
		if b, isB := et.(*types.Basic); isB && b.Kind() == types.Invalid {
			// unused key / value: keep the tuple layout Extract expects
			for range leaves(et) {
				v.C = append(v.C, "0")
			}
			continue
		}
		ev := vc.freshVal("mapelem", et)
		vc.assumeIf(rch, vc.wf(ev, st))
		// string / slice data of the elements lies in [maplo(m), maphi(m))
		ls := leaves(et)
		for j, l := range ls {
			if l.Comp != "arr" {
				continue
			}
			ext := ev.C[j+1]
			if j+2 < len(ls) && ls[j+2].Comp == "cap" {
				ext = ev.C[j+2]
			}
			vc.assumeIf(rch, implies(sx(">", ext, "0"), and(sx("<=", sx("maplo", it.C[0]), ev.C[j]), sx("<=", sx("+", ev.C[j], ext), sx("maphi", it.C[0])))))
		}
		v.C = append(v.C, ev.C...)
	}
	st.m[key] = vc.define("mapit", "Int", ite(okT, add(pos, "1"), pos))
	return v
}

func (fr *Frame) mapDelete(m, k Val, st *State, rch Term) {
	unsup("delete(map)")
}

// applyGlobalInv: facts about values loaded from package-level variables.
func (fr *Frame) applyGlobalInv(pl *Place, v Val, st *State, rch Term) {
	eng := fr.vc.eng
	g := eng.globalByAddr[pl.Addr]
	if g == nil || pl.Path != "" {
		return
	}
	if id, ok := eng.errorGlobals()[g]; ok && len(v.C) == 2 {
		// var errX = errors.New(...): a non-nil error value that is never
		// reassigned (frame-global sweep), distinct from every other such value
		fr.vc.assume(and(eq(v.C[0], itoa(int64(eng.typeIDByName("*errors.errorString")))), eq(v.C[1], itoa(-int64(id)-1000))))
	}
}

// errorGlobals: package-level variables initialised by errors.New in a package
// initialiser and stored nowhere else.
func (eng *Engine) errorGlobals() map[*ssa.Global]int {
	if eng.errGlobals != nil {
		return eng.errGlobals
	}
	eng.errGlobals = map[*ssa.Global]int{}
	stores := map[*ssa.Global]int{}
	cand := map[*ssa.Global]bool{}
	for fn := range eng.allFuncs {
		for _, b := range fn.Blocks {
			for _, ins := range b.Instrs {
				st, ok := ins.(*ssa.Store)
				if !ok {
					continue
				}
				g, ok := st.Addr.(*ssa.Global)
				if !ok {
					continue
				}
				stores[g]++
				if fn.Name() != "init" || fn.Parent() != nil {
					continue
				}
				if mi, ok := st.Val.(*ssa.MakeInterface); ok {
					_ = mi
				}
				if c, ok := st.Val.(*ssa.Call); ok {
					if callee := c.Common().StaticCallee(); callee != nil && callee.String() == "errors.New" {
						cand[g] = true
					}
				}
			}
		}
	}
	var gs []*ssa.Global
	for g := range cand {
		if stores[g] == 1 {
			gs = append(gs, g)
		}
	}
	sort.Slice(gs, func(i, j int) bool { return gs[i].String() < gs[j].String() })
	for i, g := range gs {
		eng.errGlobals[g] = i + 1
	}
	// io.EOF
	if p := eng.prog.ImportedPackage("io"); p != nil {
		if g, ok := p.Members["EOF"].(*ssa.Global); ok {
			eng.errGlobals[g] = -923 // val = -77, see ioEOF
		}
	}
	return eng.errGlobals
}

// allocBounded: the alloc-bound obligation belongs to the properties about
// memory in proportion to the input (C03, C14); elsewhere a reservation is the
// caller's configuration (e.g. the key cache capacity) and not constrained.
func (fr *Frame) allocBounded() bool {
	for _, p := range fr.props {
		if p == "C14" || p == "C03" {
			return true
		}
	}
	return false
}
