package main

// Maps: not modelled yet (every map operation is an unsupported construct).

import (
	"sort"

	"golang.org/x/tools/go/ssa"
)

func (fr *Frame) mapLookup(x *ssa.Lookup, st *State, rch Term) Val {
	unsup("map lookup")
	return Val{}
}

func (fr *Frame) makeMap(x *ssa.MakeMap, st *State) Val {
	unsup("make(map)")
	return Val{}
}

func (fr *Frame) mapUpdate(x *ssa.MapUpdate, st *State, rch Term) {
	unsup("map update")
}

func (fr *Frame) mapLen(a Val, st *State, rch Term) Val {
	unsup("len(map)")
	return Val{}
}

func (fr *Frame) mapLenTerm(a Val, st *State) Term {
	unsup("len(map)")
	return ""
}

func (fr *Frame) mapDelete(m, k Val, st *State, rch Term) {
	unsup("delete(map)")
}

// applyGlobalInv: facts about values loaded from package-level variables.
func (fr *Frame) applyGlobalInv(pl *Place, v Val, st *State, rch Term) {
	eng := fr.vc.eng
	g := eng.globalByAddr[pl.Addr]
	if g == nil || pl.Path != "" {
		return
	}
	if id, ok := eng.errorGlobals()[g]; ok && len(v.C) == 2 {
		// var errX = errors.New(...): a non-nil error value that is never
		// reassigned (frame-global sweep), distinct from every other such value
		fr.vc.assume(and(eq(v.C[0], itoa(int64(eng.typeIDByName("*errors.errorString")))), eq(v.C[1], itoa(-int64(id)-1000))))
	}
}

// errorGlobals: package-level variables initialised by errors.New in a package
// initialiser and stored nowhere else.
func (eng *Engine) errorGlobals() map[*ssa.Global]int {
	if eng.errGlobals != nil {
		return eng.errGlobals
	}
	eng.errGlobals = map[*ssa.Global]int{}
	stores := map[*ssa.Global]int{}
	cand := map[*ssa.Global]bool{}
	for fn := range eng.allFuncs {
		for _, b := range fn.Blocks {
			for _, ins := range b.Instrs {
				st, ok := ins.(*ssa.Store)
				if !ok {
					continue
				}
				g, ok := st.Addr.(*ssa.Global)
				if !ok {
					continue
				}
				stores[g]++
				if fn.Name() != "init" || fn.Parent() != nil {
					continue
				}
				if mi, ok := st.Val.(*ssa.MakeInterface); ok {
					_ = mi
				}
				if c, ok := st.Val.(*ssa.Call); ok {
					if callee := c.Common().StaticCallee(); callee != nil && callee.String() == "errors.New" {
						cand[g] = true
					}
				}
			}
		}
	}
	var gs []*ssa.Global
	for g := range cand {
		if stores[g] == 1 {
			gs = append(gs, g)
		}
	}
	sort.Slice(gs, func(i, j int) bool { return gs[i].String() < gs[j].String() })
	for i, g := range gs {
		eng.errGlobals[g] = i + 1
	}
	// io.EOF
	if p := eng.prog.ImportedPackage("io"); p != nil {
		if g, ok := p.Members["EOF"].(*ssa.Global); ok {
			eng.errGlobals[g] = -923 // val = -77, see ioEOF
		}
	}
	return eng.errGlobals
}
