package main

// Contract files: //@ comment lines in /repo/<pkg>/contracts_verif.go (build tag
// verif).  Format (Gobra-like, keyed by function and loop ordinal):
//
//	//@ func (*Visitor).uint16
//	//@   props C01 C07
//	//@   requires major&0x1f == 0
//	//@   ensures  err == nil ==> nwritten() == 3
//	//@   assigns  vs.scratch[:], #out
//	//@   loop 1 invariant 0 <= i && i <= len(b)
//	//@   loop 1 decreases len(b) - i
//
// A clause may be followed by "@props Cxx Cyy" to override the function's
// props, and by a label "[name]" right after the keyword.

import (
	"fmt"
	"go/ast"
	"go/parser"
	"go/token"
	"os"
	"path/filepath"
	"regexp"
	"sort"
	"strings"
)

type Clause struct {
	Kind  string // requires | ensures | invariant | decreases | assigns | let | bodyensures
	Label string
	Loop  int // loop ordinal (1-based) for loop clauses
	Src   string
	Expr  SpecExpr
	Name  string // for let
	Params []string // for parametrised let (macro)
	Macro  bool
	Unroll int
	Thorough bool // only checked in the thorough tier (slow to discharge)
	Props []string
	Line  int
	Aux   bool
}

type Contract struct {
	Pkg      string // package path
	Key      string // function key, e.g. (*Visitor).uint16
	Props    []string
	Clauses  []*Clause
	File     string
	Line     int
	Inline   bool // "inline": call sites inline the body even though clauses exist
	Trusted  bool // "trusted": ensures assumed, body not verified (listed as assumption)
	NoSafety bool
	Opaque   bool
	Abstract bool // "abstract": paths through unsupported constructs are cut off (not verified, listed) instead of failing the whole function
	used     bool
}

func (c *Contract) byKind(kind string) []*Clause {
	var out []*Clause
	for _, cl := range c.Clauses {
		if cl.Kind == kind {
			out = append(out, cl)
		}
	}
	return out
}

func (c *Contract) hasCallContract() bool {
	if c == nil || c.Inline {
		return false
	}
	for _, cl := range c.Clauses {
		switch cl.Kind {
		case "requires", "ensures", "assigns":
			return true
		}
	}
	return false
}

// SpecExpr: implication-structured wrapper around Go expressions.
type SpecExpr interface{}

type SpecImplies struct{ A, B SpecExpr }
type SpecIff struct{ A, B SpecExpr }
type SpecGo struct{ E ast.Expr }

var clauseKeywords = map[string]bool{
	"func": true, "props": true, "requires": true, "ensures": true, "assigns": true,
	"loop": true, "let": true, "sweep": true, "decreases": true, "inline": true, "trusted": true,
	"nosafety": true, "global": true, "opaque": true, "define": true, "assumes": true, "abstract": true,
}

var labelRe = regexp.MustCompile(`^\[([A-Za-z0-9_.\-]+)\]\s*`)
var propsRe = regexp.MustCompile(`\s@props((?:\s+C\d+)+)\s*$`)

type GlobalInv struct {
	Pkg   string
	Src   string
	Expr  SpecExpr
	Label string
	Line  int
	File  string
}

type Sweep struct {
	Pkg     string
	Name    string
	Match   *regexp.Regexp
	Except  *regexp.Regexp
	C       *Contract // clauses and props to add
}

type ContractSet struct {
	byKey   map[string]*Contract // pkgpath + "::" + key
	globals map[string][]*GlobalInv
	sweeps  []*Sweep
	defines map[string]map[string]*Clause // pkg -> macro name -> clause
}

func loadContracts(repo string, pkgDirs map[string]string) (*ContractSet, error) {
	cs := &ContractSet{byKey: map[string]*Contract{}, globals: map[string][]*GlobalInv{}}
	var pkgs []string
	for p := range pkgDirs {
		pkgs = append(pkgs, p)
	}
	sort.Strings(pkgs)
	for _, pkg := range pkgs {
		dir := pkgDirs[pkg]
		files, _ := filepath.Glob(filepath.Join(dir, "contracts*_verif.go"))
		sort.Strings(files)
		for _, f := range files {
			if err := cs.parseFile(pkg, f); err != nil {
				return nil, err
			}
		}
	}
	return cs, nil
}

func (cs *ContractSet) parseFile(pkg, file string) error {
	data, err := os.ReadFile(file)
	if err != nil {
		return err
	}
	var cur *Contract
	type pending struct {
		line int
		text string
	}
	var pend *pending
	flush := func() error {
		if pend == nil {
			return nil
		}
		p := pend
		pend = nil
		return cs.addClause(pkg, file, &cur, p.line, p.text)
	}
	for i, raw := range strings.Split(string(data), "\n") {
		line := strings.TrimSpace(raw)
		if !strings.HasPrefix(line, "//@") {
			if err := flush(); err != nil {
				return err
			}
			continue
		}
		body := strings.TrimSpace(line[3:])
		if body == "" {
			if err := flush(); err != nil {
				return err
			}
			continue
		}
		if j := strings.Index(body, " // "); j >= 0 {
			body = strings.TrimSpace(body[:j])
		}
		first := body
		if j := strings.IndexAny(body, " \t"); j >= 0 {
			first = body[:j]
		}
		if clauseKeywords[first] {
			if err := flush(); err != nil {
				return err
			}
			pend = &pending{i + 1, body}
		} else if pend != nil {
			pend.text += " " + body
		} else {
			return fmt.Errorf("%s:%d: continuation line without clause", file, i+1)
		}
	}
	return flush()
}

func (cs *ContractSet) addClause(pkg, file string, cur **Contract, line int, text string) error {
	kw := text
	rest := ""
	if j := strings.IndexAny(text, " \t"); j >= 0 {
		kw, rest = text[:j], strings.TrimSpace(text[j+1:])
	}
	errf := func(format string, a ...interface{}) error {
		return fmt.Errorf("%s:%d: %s", file, line, fmt.Sprintf(format, a...))
	}
	if kw == "func" {
		c := &Contract{Pkg: pkg, Key: rest, File: file, Line: line}
		k := pkg + "::" + rest
		if old := cs.byKey[k]; old != nil {
			// further clauses for a function that already has a contract
			*cur = old
			return nil
		}
		cs.byKey[k] = c
		*cur = c
		return nil
	}
	if kw == "define" {
		j := strings.Index(rest, "=")
		k := strings.Index(rest, "(")
		if j < 0 || k < 0 || k > j {
			return errf("define name(params) = expr")
		}
		// the '=' that separates head and body is the first one after the closing paren
		close := strings.Index(rest, ")")
		j = close + strings.Index(rest[close:], "=")
		head := strings.TrimSpace(rest[:j])
		body := strings.TrimSpace(rest[j+1:])
		cl := &Clause{Kind: "let", Macro: true, Line: line, Src: body}
		cl.Name = strings.TrimSpace(head[:k])
		for _, pn := range strings.Split(strings.TrimSuffix(strings.TrimSpace(head[k+1:]), ")"), ",") {
			if strings.TrimSpace(pn) != "" {
				cl.Params = append(cl.Params, strings.TrimSpace(pn))
			}
		}
		e, err := parseSpec(body)
		if err != nil {
			return errf("%v in %q", err, body)
		}
		cl.Expr = e
		if cs.defines == nil {
			cs.defines = map[string]map[string]*Clause{}
		}
		if cs.defines[pkg] == nil {
			cs.defines[pkg] = map[string]*Clause{}
		}
		cs.defines[pkg][cl.Name] = cl
		return nil
	}
	if kw == "sweep" {
		f := strings.Fields(rest)
		if len(f) < 2 {
			return errf("sweep <name> <regexp> [except <regexp>]")
		}
		sw := &Sweep{Pkg: pkg, Name: f[0]}
		var err error
		if sw.Match, err = regexp.Compile("^(?:" + f[1] + ")$"); err != nil {
			return errf("%v", err)
		}
		if len(f) >= 4 && f[2] == "except" {
			if sw.Except, err = regexp.Compile("^(?:" + f[3] + ")$"); err != nil {
				return errf("%v", err)
			}
		}
		sw.C = &Contract{Pkg: pkg, Key: "sweep:" + f[0], File: file, Line: line}
		cs.sweeps = append(cs.sweeps, sw)
		*cur = sw.C
		return nil
	}
	if kw == "global" {
		cl := &GlobalInv{Pkg: pkg, Line: line, File: file}
		if m := labelRe.FindStringSubmatch(rest); m != nil {
			cl.Label = m[1]
			rest = rest[len(m[0]):]
		}
		e, err := parseSpec(rest)
		if err != nil {
			return errf("%v", err)
		}
		cl.Src, cl.Expr = rest, e
		cs.globals[pkg] = append(cs.globals[pkg], cl)
		return nil
	}
	c := *cur
	if c == nil {
		return errf("clause before any func")
	}
	switch kw {
	case "props":
		c.Props = strings.Fields(rest)
		return nil
	case "inline":
		c.Inline = true
		return nil
	case "trusted":
		c.Trusted = true
		return nil
	case "nosafety":
		c.NoSafety = true
		return nil
	case "opaque":
		c.Opaque = true
		return nil
	case "abstract":
		c.Abstract = true
		return nil
	}
	cl := &Clause{Kind: kw, Line: line}
	if kw == "loop" {
		var n int
		var sub string
		if strings.HasPrefix(rest, "* ") {
			n = -1
			sub = strings.Fields(rest)[1]
		} else if _, err := fmt.Sscanf(rest, "%d %s", &n, &sub); err != nil {
			return errf("bad loop clause: %q", rest)
		}
		cl.Loop = n
		cl.Kind = sub
		idx := strings.Index(rest, sub)
		rest = strings.TrimSpace(rest[idx+len(sub):])
		if sub == "unroll" {
			var k int
			if _, err := fmt.Sscanf(rest, "%d", &k); err != nil || k <= 0 {
				return errf("loop N unroll K")
			}
			cl.Unroll = k
			cl.Src = rest
			c.Clauses = append(c.Clauses, cl)
			return nil
		}
		if sub != "invariant" && sub != "decreases" && sub != "step" {
			return errf("unknown loop clause %q", sub)
		}
	}
	if m := propsRe.FindStringSubmatch(rest); m != nil {
		cl.Props = strings.Fields(m[1])
		rest = strings.TrimSpace(rest[:len(rest)-len(m[0])])
	}
	if m := labelRe.FindStringSubmatch(rest); m != nil {
		cl.Label = m[1]
		rest = rest[len(m[0]):]
	}
	if strings.HasPrefix(rest, "@thorough ") {
		cl.Thorough = true
		rest = strings.TrimSpace(rest[10:])
	}
	if strings.HasPrefix(rest, "aux ") {
		cl.Aux = true
		rest = strings.TrimSpace(rest[4:])
	}
	if cl.Kind == "let" {
		j := strings.Index(rest, "=")
		if j < 0 {
			return errf("let without =")
		}
		cl.Name = strings.TrimSpace(rest[:j])
		rest = strings.TrimSpace(rest[j+1:])
		if k := strings.Index(cl.Name, "("); k >= 0 {
			ps := strings.TrimSuffix(strings.TrimSpace(cl.Name[k+1:]), ")")
			for _, pn := range strings.Split(ps, ",") {
				if strings.TrimSpace(pn) != "" {
					cl.Params = append(cl.Params, strings.TrimSpace(pn))
				}
			}
			cl.Macro = true
			cl.Name = strings.TrimSpace(cl.Name[:k])
		}
	}
	cl.Src = rest
	if cl.Kind == "assigns" {
		// comma separated list of lvalues; parsed as a call so that commas work
		e, err := parseSpec("assigns__(" + rest + ")")
		if err != nil {
			return errf("%v", err)
		}
		cl.Expr = e
	} else {
		e, err := parseSpec(rest)
		if err != nil {
			return errf("%v in %q", err, rest)
		}
		cl.Expr = e
	}
	c.Clauses = append(c.Clauses, cl)
	return nil
}

// parseSpec splits on top-level ==> (right assoc, lowest precedence) and <==>,
// then parses the pieces as Go expressions.  #name becomes ghost_name, @name
// becomes loopvar_name.
func parseSpec(s string) (SpecExpr, error) {
	s = strings.TrimSpace(rewriteNestedImplies(s))
	if i := topLevelIndex(s, "<==>"); i >= 0 {
		a, err := parseSpec(s[:i])
		if err != nil {
			return nil, err
		}
		b, err := parseSpec(s[i+4:])
		if err != nil {
			return nil, err
		}
		return SpecIff{a, b}, nil
	}
	if i := topLevelIndex(s, "==>"); i >= 0 {
		a, err := parseSpec(s[:i])
		if err != nil {
			return nil, err
		}
		b, err := parseSpec(s[i+3:])
		if err != nil {
			return nil, err
		}
		return SpecImplies{a, b}, nil
	}
	src := rewriteSpecSyntax(s)
	e, err := parser.ParseExpr(src)
	if err != nil {
		return nil, err
	}
	return SpecGo{e}, nil
}

func topLevelIndex(s, op string) int {
	depth := 0
	inStr := byte(0)
	for i := 0; i < len(s); i++ {
		c := s[i]
		if inStr != 0 {
			if c == '\\' {
				i++
			} else if c == inStr {
				inStr = 0
			}
			continue
		}
		switch c {
		case '"', '\'', '`':
			inStr = c
		case '(', '[', '{':
			depth++
		case ')', ']', '}':
			depth--
		default:
			if depth == 0 && strings.HasPrefix(s[i:], op) {
				// do not confuse <==> with ==>
				if op == "==>" && i > 0 && s[i-1] == '<' {
					continue
				}
				return i
			}
		}
	}
	return -1
}

func rewriteSpecSyntax(s string) string {
	var b strings.Builder
	inStr := byte(0)
	for i := 0; i < len(s); i++ {
		c := s[i]
		if inStr != 0 {
			b.WriteByte(c)
			if c == '\\' && i+1 < len(s) {
				i++
				b.WriteByte(s[i])
			} else if c == inStr {
				inStr = 0
			}
			continue
		}
		switch c {
		case '"', '\'', '`':
			inStr = c
			b.WriteByte(c)
		case '#':
			b.WriteString("ghost_")
		case '@':
			b.WriteString("loopvar_")
		default:
			b.WriteByte(c)
		}
	}
	return b.String()
}

// nested implications inside parentheses: the Go parser cannot parse ==>, so
// contracts use implies(a, b) there.

func exprString(e ast.Expr) string {
	var b strings.Builder
	fset := token.NewFileSet()
	_ = fset
	ast.Inspect(e, func(n ast.Node) bool { return true })
	b.WriteString(fmt.Sprintf("%v", e))
	return b.String()
}

// rewriteNestedImplies turns A ==> B / A <==> B inside parentheses or call
// arguments into implies(A, B) / iff(A, B); the top level is left alone.
func rewriteNestedImplies(s string) string {
	var b strings.Builder
	i := 0
	for i < len(s) {
		c := s[i]
		if c == '"' || c == '\'' || c == '`' {
			j := i + 1
			for j < len(s) && s[j] != c {
				if s[j] == '\\' {
					j++
				}
				j++
			}
			if j >= len(s) {
				j = len(s) - 1
			}
			b.WriteString(s[i : j+1])
			i = j + 1
			continue
		}
		if c == '(' || c == '[' {
			// find the matching close
			depth := 0
			j := i
			for ; j < len(s); j++ {
				if s[j] == '(' || s[j] == '[' || s[j] == '{' {
					depth++
				} else if s[j] == ')' || s[j] == ']' || s[j] == '}' {
					depth--
					if depth == 0 {
						break
					}
				}
			}
			if j >= len(s) {
				b.WriteString(s[i:])
				break
			}
			inner := rewriteNestedImplies(s[i+1 : j])
			// split at top-level commas
			var parts []string
			start := 0
			d := 0
			for k := 0; k < len(inner); k++ {
				switch inner[k] {
				case '(', '[', '{':
					d++
				case ')', ']', '}':
					d--
				case ',':
					if d == 0 {
						parts = append(parts, inner[start:k])
						start = k + 1
					}
				}
			}
			parts = append(parts, inner[start:])
			for k, p := range parts {
				parts[k] = implToCall(p)
			}
			b.WriteByte(c)
			b.WriteString(strings.Join(parts, ","))
			b.WriteByte(s[j])
			i = j + 1
			continue
		}
		b.WriteByte(c)
		i++
	}
	return b.String()
}

func implToCall(p string) string {
	if i := topLevelIndex(p, "<==>"); i >= 0 {
		return " iff(" + implToCall(p[:i]) + ", " + implToCall(p[i+4:]) + ")"
	}
	if i := topLevelIndex(p, "==>"); i >= 0 {
		return " implies(" + implToCall(p[:i]) + ", " + implToCall(p[i+3:]) + ")"
	}
	return p
}
