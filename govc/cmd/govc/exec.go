package main

// Symbolic execution of one go/ssa function into a VC: passive (single
// assignment) form with block reach conditions, state merging at joins, loops
// cut at headers with invariants, calls by contract or inlining.

import (
	"path/filepath"
	"bytes"
	"fmt"
	"go/ast"
	"go/printer"
	"go/constant"
	"go/token"
	"go/types"
	"math"
	"math/big"
	"sort"
	"strings"

	"golang.org/x/tools/go/ssa"
)

type bigInt = big.Int

var bigOne = big.NewInt(1)

type Frame struct {
	vc       *VC
	fn       *ssa.Function
	prefix   string
	vals     map[ssa.Value]Val
	depth    int
	top      bool
	contract *Contract
	entry    *State
	params   map[string]Val
	lets     map[string]SVal
	results  Val
	stack    []*ssa.Function
	props    []string
	callsite string
	freeVars []Val
	// loop bookkeeping
	loopOrd  map[*ssa.BasicBlock]int
	loopHead map[*ssa.BasicBlock]*loopInfo
	reach    map[*ssa.BasicBlock]Term
	exit     map[*ssa.BasicBlock]*State
	edgeCond map[[2]int]Term
	curBlock *ssa.BasicBlock
	noSafety bool
	nilSeen  map[*ssa.BasicBlock]map[Term]bool
	rets     []retInfo
	done     map[*ssa.BasicBlock]bool
}

type loopInfo struct {
	ord      int
	head     *ssa.BasicBlock
	blocks   map[*ssa.BasicBlock]bool
	phiHead  map[*ssa.Phi]Val // havocked values at head
	headSt   *State           // state right after havoc (for decreases)
	variant  []Term
	headReach Term
}

func (vc *VC) pos(p token.Pos) token.Position { return vc.eng.fset.Position(p) }

// ---------------------------------------------------------------------------
// value construction

func (vc *VC) freshVal(hint string, t types.Type) Val {
	ls := leaves(t)
	v := Val{T: t}
	for _, l := range ls {
		v.C = append(v.C, vc.fresh(hint+l.key(), l.Sort))
	}
	return v
}

// wf returns the type invariant of a value (ranges of integers, shape of
// slices/strings/interfaces, allocatedness of references) in state st.
func (vc *VC) wf(v Val, st *State) Term {
	ls := leaves(v.T)
	if len(ls) != len(v.C) {
		return "true"
	}
	var cs []Term
	alloc := vc.get(st, "$alloc")
	for i := 0; i < len(ls); i++ {
		l := ls[i]
		c := v.C[i]
		switch u := l.T.Underlying().(type) {
		case *types.Basic:
			if lo, hi, ok := rangeOf(l.T); ok {
				cs = append(cs, sx("<=", lo, c), sx("<=", c, hi))
			} else if u.Info()&types.IsString != 0 && l.Comp == "arr" {
				ln := v.C[i+1]
				cs = append(cs, sx("<=", "0", ln), sx("<", sx("+", c, ln), alloc), sx("<=", ln, maxLenT))
			}
		case *types.Slice:
			if l.Comp == "arr" {
				ln, cp := v.C[i+1], v.C[i+2]
				cs = append(cs, sx("<=", "0", ln), sx("<=", ln, cp), sx("<=", cp, maxLenT),
					implies(eq(c, "0"), eq(cp, "0")), sx("<", sx("+", c, cp), alloc))
			}
		case *types.Pointer, *types.Map, *types.Chan, *types.Signature:
			cs = append(cs, sx("<", c, alloc))
			if pt, isptr := u.(*types.Pointer); !isptr {
				cs = append(cs, sx("<=", "0", c))
			} else if hasEmbeddedArray(pt.Elem()) {
				// the whole object, including its embedded arrays, is allocated
				if _, reserve := embeddedArrays(pt.Elem()); reserve > 1 {
					cs = append(cs, implies(not(eq(c, "0")), sx("<=", sx("+", c, itoa(reserve)), alloc)))
				}
			}
		case *types.Interface:
			if l.Comp == "typ" {
				cs = append(cs, sx("<=", "0", c), implies(eq(c, "0"), eq(v.C[i+1], "0")))
			}
		}
	}
	return and(cs...)
}

const maxLenT = "4611686018427387904" // 2^62: no Go slice/string is longer

func (vc *VC) zeroVal(t types.Type) Val {
	ls := leaves(t)
	v := Val{T: t}
	for _, l := range ls {
		if l.Sort == "Bool" {
			v.C = append(v.C, "false")
		} else {
			v.C = append(v.C, "0")
		}
	}
	return v
}

func (vc *VC) placeOf(v Val) *Place {
	if v.Pl != nil {
		return v.Pl
	}
	pt, ok := v.T.Underlying().(*types.Pointer)
	if !ok {
		unsup("placeOf non-pointer %s", v.T)
	}
	return &Place{Root: pt.Elem(), Addr: v.t(), Cur: pt.Elem()}
}

func (vc *VC) ptrVal(pl *Place) Val {
	v := Val{T: types.NewPointer(pl.Cur), Pl: pl}
	if pl.Local != "" {
		v.C = []Term{"<local:" + pl.Local + ">"}
	} else if pl.Path == "" {
		v.C = []Term{pl.Addr}
	} else if _, isArr := pl.Cur.Underlying().(*types.Array); isArr {
		// pointer to an embedded array: the address of its element 0
		v.C = []Term{adr(pl.Addr, itoa(embOffset(pl.Root, pl.Path)))}
	} else {
		v.C = []Term{"<interior:" + pl.Path + ">"}
	}
	return v
}

func joinPath(a, b string) string {
	if a == "" {
		return b
	}
	if b == "" {
		return a
	}
	if strings.HasPrefix(b, "#") {
		return a + b
	}
	return a + "." + b
}

func (vc *VC) famOf(pl *Place, l Leaf) string {
	if pl.Local != "" {
		key := pl.Local + "$" + joinPath(pl.Path, l.key())
		vc.localSorts[key] = l.Sort
		return key
	}
	fam := family(pl.Root, joinPath(pl.Path, l.key()))
	vc.regFam(fam, l.Sort)
	return fam
}

func (vc *VC) load(pl *Place, st *State) Val {
	if _, isArr := pl.Cur.Underlying().(*types.Array); isArr {
		unsup("load of array value %s", pl.Cur)
	}
	ls := leaves(pl.Cur)
	v := Val{T: pl.Cur}
	for _, l := range ls {
		fam := vc.famOf(pl, l)
		if pl.Local != "" {
			v.C = append(v.C, vc.get(st, fam))
		} else {
			v.C = append(v.C, vc.sel(vc.get(st, fam), pl.Addr))
		}
	}
	return v
}

func (vc *VC) storeTo(pl *Place, v Val, st *State, fr *Frame) {
	ls := leaves(pl.Cur)
	if len(ls) != len(v.C) {
		unsup("store shape mismatch %s <- %s (%d vs %d)", pl.Cur, v.T, len(ls), len(v.C))
	}
	for i, l := range ls {
		fam := vc.famOf(pl, l)
		if pl.Local != "" {
			vc.set(st, fam, v.C[i])
			continue
		}
		vc.set(st, fam, store(vc.get(st, fam), pl.Addr, v.C[i]))
		if fr != nil {
			fr.wrote(fam)
		}
	}
	if pl.Local != "" {
		return
	}
	// embedded arrays inside a struct value that is stored as a whole: their
	// contents become unknown (sound over-approximation)
	if hasEmbeddedArray(pl.Cur) {
		arrs, _ := embeddedArrays(pl.Root)
		for _, a := range arrs {
			if pl.Path == "" || a.Path == pl.Path || strings.HasPrefix(a.Path, pl.Path+".") {
				vc.havocElems(a.Elem, adr(pl.Addr, itoa(a.Off)), itoa(a.N), st, fr)
			}
		}
	}
}

// havocElems makes n elements starting at addr unknown.
func (vc *VC) havocElems(elem types.Type, addr, n Term, st *State, fr *Frame) {
	for _, l := range leaves(elem) {
		fam := family(elem, l.key())
		vc.regFam(fam, l.Sort)
		old := vc.get(st, fam)
		nw := vc.fresh(fam+"~r", vc.famSort(fam))
		vc.assume(fmt.Sprintf("(forall ((k Int)) (! (=> (or (< k %s) (>= k (+ %s %s))) (= (select %s k) (select %s k))) :pattern ((select %s k))))", addr, addr, n, nw, old, nw))
		st.m[fam] = nw
		if fr != nil {
			fr.wrote(fam)
		}
	}
}

func (fr *Frame) wrote(fam string) {}

// ---------------------------------------------------------------------------

func (vc *VC) stringConst(s string, st *State) Val {
	idx, ok := vc.strConst[s]
	if !ok {
		idx = len(vc.strConst) + 1
		vc.strConst[s] = idx
		base := -(int64(idx) << 24) - (1 << 50)
		// contents on the initial byte heap; preserved by havoc (negative addresses)
		vc.regFam("E$uint8", "Int")
		h0 := vc.declare("E$uint8@0", "(Array Int Int)")
		for i := 0; i < len(s) && i < 64; i++ {
			vc.assume(eq(sel(h0, adr(itoa(base), itoa(int64(i)))), itoa(int64(s[i]))))
		}
		if len(s) > 64 {
			vc.note("string constant of length %d: only the first 64 bytes are modelled", len(s))
		}
	}
	base := -(int64(idx) << 24) - (1 << 50)
	if len(s) == 0 {
		return Val{T: types.Typ[types.String], C: []Term{"0", "0"}}
	}
	return Val{T: types.Typ[types.String], C: []Term{itoa(base), itoa(int64(len(s)))}}
}

func (fr *Frame) constVal(c *ssa.Const) Val {
	vc := fr.vc
	t := c.Type()
	if c.Value == nil {
		return Val{T: t, C: vc.zeroVal(t).C}
	}
	switch u := t.Underlying().(type) {
	case *types.Basic:
		switch {
		case u.Info()&types.IsBoolean != 0:
			if constant.BoolVal(c.Value) {
				return Val{T: t, C: []Term{"true"}}
			}
			return Val{T: t, C: []Term{"false"}}
		case u.Info()&types.IsString != 0:
			v := vc.stringConst(constant.StringVal(c.Value), nil)
			v.T = t
			return v
		case u.Info()&types.IsInteger != 0:
			n, ok := new(big.Int).SetString(constant.ToInt(c.Value).ExactString(), 10)
			if !ok {
				unsup("integer constant %v", c.Value)
			}
			return Val{T: t, C: []Term{bigTerm(n)}}
		case u.Info()&types.IsFloat != 0:
			f, _ := constant.Float64Val(c.Value)
			if u.Kind() == types.Float32 {
				return Val{T: t, C: []Term{fmt.Sprintf("%d", math.Float32bits(float32(f)))}}
			}
			return Val{T: t, C: []Term{fmt.Sprintf("%d", math.Float64bits(f))}}
		}
	}
	unsup("constant %v of type %s", c.Value, t)
	return Val{}
}

func globalAddr(eng *Engine, g *ssa.Global) Term {
	idx, ok := eng.globalIdx[g]
	if !ok {
		idx = len(eng.globalIdx) + 1
		eng.globalIdx[g] = idx
	}
	t := itoa(-(int64(idx) << 24) - (1 << 60))
	eng.globalByAddr[t] = g
	return t
}

func (fr *Frame) value(v ssa.Value) Val {
	switch x := v.(type) {
	case *ssa.Const:
		return fr.constVal(x)
	case *ssa.Global:
		t := x.Type().(*types.Pointer).Elem()
		return Val{T: x.Type(), C: []Term{globalAddr(fr.vc.eng, x)}, Pl: &Place{Root: t, Addr: globalAddr(fr.vc.eng, x), Cur: t}}
	case *ssa.Function:
		return Val{T: x.Type(), C: []Term{fr.vc.eng.funcID(x)}, Fn: x}
	case *ssa.Builtin:
		return Val{T: x.Type(), Fn: x}
	case *ssa.FreeVar:
		for i, fv := range fr.fn.FreeVars {
			if fv == x {
				if i < len(fr.freeVars) {
					return fr.freeVars[i]
				}
			}
		}
		unsup("free variable %s without binding", x.Name())
	}
	if val, ok := fr.vals[v]; ok {
		return val
	}
	unsup("value %s (%T) not yet defined in %s", v.Name(), v, fr.fn)
	return Val{}
}

// ---------------------------------------------------------------------------
// function execution

type retInfo struct {
	reach Term
	vals  Val
	st    *State
}

func backEdge(from, to *ssa.BasicBlock) bool { return to.Dominates(from) }

func (fr *Frame) order() []*ssa.BasicBlock {
	// reverse postorder over forward edges
	seen := map[*ssa.BasicBlock]bool{}
	var post []*ssa.BasicBlock
	var dfs func(b *ssa.BasicBlock)
	dfs = func(b *ssa.BasicBlock) {
		seen[b] = true
		for _, s := range b.Succs {
			if backEdge(b, s) || seen[s] {
				continue
			}
			dfs(s)
		}
		post = append(post, b)
	}
	dfs(fr.fn.Blocks[0])
	for i, j := 0, len(post)-1; i < j; i, j = i+1, j-1 {
		post[i], post[j] = post[j], post[i]
	}
	return post
}

func (fr *Frame) findLoops() {
	fr.loopHead = map[*ssa.BasicBlock]*loopInfo{}
	var heads []*ssa.BasicBlock
	for _, b := range fr.fn.Blocks {
		for _, s := range b.Succs {
			if backEdge(b, s) {
				if fr.loopHead[s] == nil {
					fr.loopHead[s] = &loopInfo{head: s, blocks: map[*ssa.BasicBlock]bool{s: true}, phiHead: map[*ssa.Phi]Val{}}
					heads = append(heads, s)
				}
				// natural loop of edge b->s
				li := fr.loopHead[s]
				var stack []*ssa.BasicBlock
				if !li.blocks[b] {
					li.blocks[b] = true
					stack = append(stack, b)
				}
				for len(stack) > 0 {
					n := stack[len(stack)-1]
					stack = stack[:len(stack)-1]
					for _, p := range n.Preds {
						if !li.blocks[p] {
							li.blocks[p] = true
							stack = append(stack, p)
						}
					}
				}
			}
		}
	}
	// ordinal by source position of the header (stable under unrelated edits)
	sort.Slice(heads, func(i, j int) bool { return heads[i].Index < heads[j].Index })
	for i, h := range heads {
		fr.loopHead[h].ord = i + 1
	}
}

// run executes fn with the given arguments from state st under reach, and
// returns the merged return values, exit state and exit reach condition.
func (vc *VC) run(fn *ssa.Function, args []Val, freeVars []Val, st *State, reach Term, parent *Frame, callsite string) (Val, *State, Term) {
	if len(fn.Blocks) == 0 {
		unsup("function %s has no body", fn)
	}
	fr := &Frame{vc: vc, fn: fn, vals: map[ssa.Value]Val{}, params: map[string]Val{}, lets: map[string]SVal{},
		reach: map[*ssa.BasicBlock]Term{}, exit: map[*ssa.BasicBlock]*State{}, edgeCond: map[[2]int]Term{}, freeVars: freeVars}
	vc.nfresh++
	fr.prefix = fmt.Sprintf("%s!%d", shortFn(fn), vc.nfresh)
	fr.contract = vc.eng.contractOf(fn)
	if fr.contract != nil {
		fr.contract.used = true
		fr.noSafety = fr.contract.NoSafety
	}
	if parent != nil {
		fr.depth = parent.depth + 1
		fr.stack = append(append([]*ssa.Function{}, parent.stack...), fn)
		fr.props = parent.props
		fr.callsite = callsite
		if parent.noSafety {
			fr.noSafety = true
		}
		for _, f := range parent.stack {
			if f == fn {
				unsup("recursive call of %s needs a contract", fn)
			}
		}
		if fr.depth > 6 {
			unsup("inlining depth > 6 at %s", fn)
		}
	} else {
		fr.top = true
		vc.topFrame = fr
		fr.stack = []*ssa.Function{fn}
		if fr.contract != nil {
			fr.props = fr.contract.Props
		}
	}
	for i, p := range fn.Params {
		fr.vals[p] = args[i]
		fr.params[p.Name()] = args[i]
	}
	fr.entry = st.clone()
	fr.findLoops()

	ord := fr.order()
	fr.done = map[*ssa.BasicBlock]bool{}
	for _, b := range ord {
		if fr.done[b] {
			continue
		}
		fr.curBlock = b
		var cur *State
		var rch Term
		li := fr.loopHead[b]
		if b == fn.Blocks[0] {
			cur, rch = st.clone(), reach
		} else {
			var ok bool
			cur, rch, ok = fr.blockEntry(b)
			if !ok || rch == "false" {
				continue // statically unreachable (e.g. the 32-bit branches)
			}
		}
		if li != nil {
			if n := fr.unrollBound(li); n > 0 {
				fr.unroll(li, cur, rch, n, ord)
				continue
			}
			cur = fr.enterLoop(li, cur, rch)
		}
		fr.execBody(b, cur, rch, true)
	}
	rets := fr.rets
	// merge returns
	if len(rets) == 0 {
		// never returns (panics on every path): placeholder components keep the
		// caller's tuple layout; the caller continues under reach "false"
		zv := Val{T: fn.Signature.Results()}
		for _, l := range leaves(zv.T) {
			if l.Sort == "Bool" {
				zv.C = append(zv.C, "false")
			} else {
				zv.C = append(zv.C, "0")
			}
		}
		return zv, st, "false"
	}
	var conds []Term
	var sts []*State
	for _, r := range rets {
		conds = append(conds, r.reach)
		sts = append(sts, r.st)
	}
	exitReach := vc.define("exit", "Bool", or(conds...))
	out := vc.merge(conds, sts)
	res := Val{T: fn.Signature.Results()}
	n := len(rets[0].vals.C)
	ls := leaves(res.T)
	for i := 0; i < n; i++ {
		t := rets[len(rets)-1].vals.C[i]
		for j := len(rets) - 2; j >= 0; j-- {
			t = ite(conds[j], rets[j].vals.C[i], t)
		}
		srt := "Int"
		if i < len(ls) {
			srt = ls[i].Sort
		}
		if len(rets) == 1 && !fr.top {
			// single return: keep the term's structure (addresses stay matchable)
			res.C = append(res.C, t)
		} else {
			res.C = append(res.C, vc.define(fr.prefix+".ret", srt, t))
		}
	}
	if fr.top {
		for _, c := range res.C {
			if strings.HasPrefix(c, "|") {
				vc.inputs = append(vc.inputs, c)
			}
		}
	}
	fr.results = res
	if fr.top {
		fr.checkExit(res, out, exitReach)
	}
	return res, out, exitReach
}

func shortFn(fn *ssa.Function) string {
	p := ""
	if fn.Pkg != nil {
		p = fn.Pkg.Pkg.Name() + "."
	} else if recv := fn.Signature.Recv(); recv != nil {
		t := recv.Type()
		if pt, ok := t.(*types.Pointer); ok {
			t = pt.Elem()
		}
		if n, ok := t.(*types.Named); ok && n.Obj().Pkg() != nil {
			p = n.Obj().Pkg().Name() + "."
		}
	}
	return p + funcKey(fn)
}

func (fr *Frame) edge(p, b *ssa.BasicBlock) Term {
	key := [2]int{p.Index, b.Index}
	if t, ok := fr.edgeCond[key]; ok {
		return t
	}
	c := fr.reach[p]
	if len(p.Instrs) > 0 {
		if iff, ok := p.Instrs[len(p.Instrs)-1].(*ssa.If); ok {
			cv := fr.value(iff.Cond).t()
			if p.Succs[0] == b && p.Succs[1] == b {
				// both branches
			} else if p.Succs[0] == b {
				c = and(c, cv)
			} else {
				c = and(c, not(cv))
			}
		}
	}
	t := fr.vc.define("edge", "Bool", c)
	fr.edgeCond[key] = t
	return t
}

func (fr *Frame) phiValue(phi *ssa.Phi, b *ssa.BasicBlock, preds []*ssa.BasicBlock, conds []Term) Val {
	var vals []Val
	for _, p := range preds {
		for i, bp := range b.Preds {
			if bp == p {
				vals = append(vals, fr.value(phi.Edges[i]))
				break
			}
		}
	}
	return fr.mergeVals(phi.Type(), vals, conds, phi.Name())
}

func (fr *Frame) mergeVals(t types.Type, vals []Val, conds []Term, hint string) Val {
	vc := fr.vc
	if len(vals) == 0 {
		unsup("phi without reachable predecessor")
	}
	res := Val{T: t}
	last := vals[len(vals)-1]
	ls := leaves(t)
	// pointer places: all must share root/path
	if last.Pl != nil {
		pl := *last.Pl
		addr := pl.Addr
		for i := len(vals) - 2; i >= 0; i-- {
			vp := vals[i].Pl
			if vp == nil {
				// a plain pointer value (e.g. nil) merged with a place
				if pl.Path != "" {
					unsup("phi of interior pointer and plain pointer")
				}
				addr = ite(conds[i], vals[i].t(), addr)
				continue
			}
			if vp.Path != pl.Path || !types.Identical(vp.Root, pl.Root) || vp.Local != pl.Local {
				unsup("phi of pointers with different static paths (%s vs %s)", vp.Path, pl.Path)
			}
			addr = ite(conds[i], vp.Addr, addr)
		}
		if pl.Local == "" {
			pl.Addr = vc.define(fr.prefix+"."+hint, "Int", addr)
		}
		return vc.ptrVal(&pl)
	}
	for _, v := range vals {
		if v.Pl != nil && v.Pl.Path != "" {
			unsup("phi of interior pointer")
		}
	}
	for k := range last.C {
		tm := last.C[k]
		for i := len(vals) - 2; i >= 0; i-- {
			tm = ite(conds[i], vals[i].C[k], tm)
		}
		srt := "Int"
		if k < len(ls) {
			srt = ls[k].Sort
		}
		res.C = append(res.C, vc.define(fr.prefix+"."+hint, srt, tm))
	}
	// keep statically known function values when all agree
	res.Fn = last.Fn
	res.Fv = last.Fv
	for _, v := range vals {
		if v.Fn != last.Fn {
			res.Fn, res.Fv = nil, nil
		}
	}
	return res
}

// ---------------------------------------------------------------------------
// loops

func (fr *Frame) loopClauses(li *loopInfo, kind string) []*Clause {
	if fr.contract == nil {
		return nil
	}
	var out []*Clause
	for _, cl := range fr.contract.Clauses {
		if (cl.Loop == li.ord || cl.Loop == -1) && cl.Kind == kind {
			out = append(out, cl)
		}
	}
	return out
}

func (fr *Frame) clauseProps(cl *Clause) []string {
	if len(cl.Props) > 0 {
		return cl.Props
	}
	return fr.props
}

func (fr *Frame) enterLoop(li *loopInfo, cur *State, rch Term) *State {
	vc := fr.vc
	b := li.head
	invs := fr.loopClauses(li, "invariant")
	decs := fr.loopClauses(li, "decreases")
	if len(invs) == 0 && len(decs) == 0 {
		// constant-bound loops are not unrolled here; a loop needs an invariant
		if fr.contract == nil || !fr.top {
			vc.note("loop %d of %s has no invariant: havoc only", li.ord, fr.fn)
		}
	}
	// inv-init: φ values currently hold the entry values
	env := fr.specEnv(cur, b)
	for _, cl := range invs {
		t := env.boolOf(cl.Expr)
		vc.oblige("inv-init", fr.clauseSite(cl, fmt.Sprintf("loop%d", li.ord)), rch, t, fr.clauseProps(cl), cl.Aux || !fr.top, vc.pos(b.Instrs[0].Pos()))
	}
	// havoc: φ at the head, and every family written in the loop
	st := cur.clone()
	for _, ins := range b.Instrs {
		phi, ok := ins.(*ssa.Phi)
		if !ok {
			break
		}
		nv := vc.freshVal(fr.prefix+"."+phi.Name()+"@loop"+phi.Comment, phi.Type())
		if old := fr.vals[phi]; old.Pl != nil {
			pl := *old.Pl
			pl.Addr = nv.C[0]
			if pl.Path != "" || pl.Local != "" {
				// interior pointer that does not move inside the loop is kept
				nv = old
			} else {
				nv.Pl = &pl
			}
		}
		fr.vals[phi] = nv
		li.phiHead[phi] = nv
	}
	ms := vc.eng.loopModset(fr.fn, li)
	if ms.all {
		for fam := range vc.eng.famSorts {
			vc.havocFam(st, fam)
		}
		var gs []string
		for g := range ghostSorts {
			gs = append(gs, g)
		}
		vc.havocGhostSet(st, gs)
		vc.note("loop %d of %s: unknown write set, everything havocked", li.ord, fr.fn)
	} else {
		var fams []string
		for fam := range ms.fams {
			fams = append(fams, fam)
		}
		sort.Strings(fams)
		var gs []string
		for _, fam := range fams {
			if _, isGhost := ghostSorts[fam]; isGhost {
				gs = append(gs, fam)
			} else {
				vc.regFam(fam, ms.fams[fam])
				vc.havocFam(st, fam)
			}
		}
		vc.havocGhostSet(st, gs)
	}
	// allocation counter only grows
	if ms.all || ms.allocs {
		old := vc.get(st, "$alloc")
		na := vc.fresh("$alloc~h", "Int")
		vc.assume(sx("<=", old, na))
		st.m["$alloc"] = na
	}
	// local variables (non-escaping cells) assigned in the loop
	for al := range ms.locals {
		pv, ok := fr.vals[al]
		if !ok || pv.Pl == nil || pv.Pl.Local == "" {
			continue
		}
		nv := vc.freshVal(pv.Pl.Local+"@loop", pv.Pl.Cur)
		vc.storeTo(pv.Pl, nv, st, nil)
		vc.assumeIf(rch, vc.wf(nv, st))
	}
	// map iterators advanced in the loop: position anywhere in 0..len(m)
	for r := range ms.iters {
		if _, ok := fr.vals[r]; !ok {
			continue
		}
		np := vc.fresh("mapit@loop", "Int")
		st.m[fr.iterKey(r)] = np
		vc.assumeIf(rch, and(sx("<=", "0", np), sx("<=", np, fr.mapLenTerm(fr.vals[r], st))))
	}
	for _, ins := range b.Instrs {
		phi, ok := ins.(*ssa.Phi)
		if !ok {
			break
		}
		vc.assumeIf(rch, vc.wf(fr.vals[phi], st))
	}
	// built-in invariant of go/ssa's range lowering: the index φ starts at -1
	// and is incremented by one per iteration (checked on every back edge)
	for _, ins := range b.Instrs {
		phi, ok := ins.(*ssa.Phi)
		if !ok {
			break
		}
		if phi.Comment == "rangeindex" {
			vc.assumeIf(rch, sx("<=", "(- 1)", fr.vals[phi].t()))
			if bound := rangeBound(phi); bound != nil {
				vc.assumeIf(rch, sx("<", fr.vals[phi].t(), fr.value(bound).t()))
			}
		}
	}
	env2 := fr.specEnv(st, b)
	for _, cl := range invs {
		vc.assumeIf(rch, env2.boolOf(cl.Expr))
	}
	li.headSt = st.clone()
	li.headReach = rch
	li.variant = nil
	for _, cl := range decs {
		li.variant = append(li.variant, env2.intOf(cl.Expr))
	}
	return st
}

func (vc *VC) havocGhost(st *State, g string) {
	srt := ghostSorts[g]
	old := vc.get(st, g)
	n := vc.fresh(g+"~h", srt)
	switch g {
	case "#evk", "#eva", "#evb", "#evl", "#evc":
		// the event log is append-only (#evn must be havocked after the arrays)
		vc.assume(fmt.Sprintf("(forall ((k Int)) (! (=> (< k %s) (= (select %s k) (select %s k))) :pattern ((select %s k))))", vc.get(st, "#evn"), n, old, n))
	case "#out":
		vc.assume(fmt.Sprintf("(forall ((k Int)) (! (=> (< k %s) (= (select %s k) (select %s k))) :pattern ((select %s k))))", vc.get(st, "#outlen"), n, old, n))
	}
	switch g {
	case "#outlen", "#wfails", "#evn", "#inpos", "#rdcount":
		vc.assume(sx("<=", old, n))
	case "#vfail":
		vc.assume(implies(old, n))
	}
	st.m[g] = n
}

func (fr *Frame) backEdge(li *loopInfo, from *ssa.BasicBlock, cur *State) {
	vc := fr.vc
	b := li.head
	guard := fr.edge(from, b)
	// bind φ to the back-edge values for invariant evaluation
	saved := map[*ssa.Phi]Val{}
	for _, ins := range b.Instrs {
		phi, ok := ins.(*ssa.Phi)
		if !ok {
			break
		}
		saved[phi] = fr.vals[phi]
		for i, bp := range b.Preds {
			if bp == from {
				fr.vals[phi] = fr.value(phi.Edges[i])
			}
		}
	}
	for _, ins := range b.Instrs {
		phi, ok := ins.(*ssa.Phi)
		if !ok {
			break
		}
		if phi.Comment == "rangeindex" {
			c := sx("<=", "(- 1)", fr.vals[phi].t())
			if bound := rangeBound(phi); bound != nil {
				c = and(c, sx("<", fr.vals[phi].t(), fr.value(bound).t()))
			}
			vc.oblige("inv-step", fmt.Sprintf("loop%d.rangeindex", li.ord), guard, c, fr.props, true, vc.pos(b.Instrs[0].Pos()))
		}
	}
	env := fr.specEnv(cur, b)
	for _, cl := range fr.loopClauses(li, "invariant") {
		t := env.boolOf(cl.Expr)
		vc.oblige("inv-step", fr.clauseSite(cl, fmt.Sprintf("loop%d", li.ord)), guard, t, fr.clauseProps(cl), cl.Aux || !fr.top, vc.pos(b.Instrs[0].Pos()))
	}
	// step clauses: a relation between the state at the loop head (prev(e)) and
	// the state at the end of the iteration
	for _, cl := range fr.loopClauses(li, "step") {
		env.prevSt = li.headSt
		env.prevPhi = li.phiHead
		t := env.boolOf(cl.Expr)
		vc.oblige("inv-step", fr.clauseSite(cl, fmt.Sprintf("loop%d.step", li.ord)), guard, t, fr.clauseProps(cl), cl.Aux || !fr.top, vc.pos(b.Instrs[0].Pos()))
	}
	decs := fr.loopClauses(li, "decreases")
	if len(decs) > 0 {
		// lexicographic decrease, bounded below by 0
		var after []Term
		for _, cl := range decs {
			after = append(after, env.intOf(cl.Expr))
		}
		cond := "false"
		for i := len(decs) - 1; i >= 0; i-- {
			lt := and(sx("<", after[i], li.variant[i]), sx("<=", "0", li.variant[i]))
			if i == len(decs)-1 {
				cond = lt
			} else {
				cond = or(lt, and(eq(after[i], li.variant[i]), cond))
			}
		}
		vc.oblige("decreases", fr.clauseSite(decs[0], fmt.Sprintf("loop%d", li.ord)), guard, cond, fr.clauseProps(decs[0]), decs[0].Aux || !fr.top, vc.pos(b.Instrs[0].Pos()))
	}
	for phi, v := range saved {
		fr.vals[phi] = v
	}
}

func (fr *Frame) clauseSite(cl *Clause, dflt string) string {
	s := dflt
	if cl.Label != "" {
		s = dflt + "." + cl.Label
		if dflt == "" {
			s = cl.Label
		}
	} else {
		s = dflt + ":" + normSrc(cl.Src)
	}
	if !fr.top {
		s = "inl:" + shortFn(fr.fn) + ":" + s
	}
	return s
}

func normSrc(s string) string {
	s = strings.Join(strings.Fields(s), " ")
	if len(s) > 80 {
		s = s[:80]
	}
	return s
}

func (fr *Frame) safetyProps() []string {
	return fr.props
}

// siteOf returns a stable textual site: normalised source text of the
// expression if available.
func (fr *Frame) siteOf(ins ssa.Instruction, dflt string) string {
	s := dflt
	if src := fr.vc.eng.sourceAt(ins); src != "" {
		s = src
	}
	if !fr.top {
		s = "inl:" + shortFn(fr.fn) + ":" + s
	}
	return s
}

// ---------------------------------------------------------------------------
// exit: ensures, assigns

func (fr *Frame) checkExit(res Val, out *State, reach Term) {
	vc := fr.vc
	if fr.contract == nil {
		return
	}
	_ = vc
	fr.checkAssigns(out, reach)
}

// checkEnsuresAt checks every ensures clause at one return statement (one
// obligation per clause and return: smaller queries, better diagnostics).
func (fr *Frame) checkEnsuresAt(ret *ssa.Return, res Val, st *State, reach Term) {
	vc := fr.vc
	nret := 0
	for _, b := range fr.fn.Blocks {
		if len(b.Instrs) > 0 {
			if _, ok := b.Instrs[len(b.Instrs)-1].(*ssa.Return); ok {
				nret++
			}
		}
	}
	suffix := ""
	if nret > 1 {
		suffix = "@" + fr.returnSite(ret)
	}
	env := fr.specEnvExit(st, res)
	for _, cl := range fr.contract.Clauses {
		if cl.Kind != "ensures" {
			continue
		}
		if cl.Thorough && vc.eng.tier != "thorough" {
			vc.eng.deferred[vc.fnName+"#ensures:"+fr.clauseSite(cl, "")] = true
			continue
		}
		t := env.boolOf(cl.Expr)
		vc.oblige("ensures", fr.clauseSite(cl, "")+suffix, reach, t, fr.clauseProps(cl), cl.Aux, vc.pos(ret.Pos()))
	}
}

func (fr *Frame) returnSite(ret *ssa.Return) string {
	eng := fr.vc.eng
	pos := ret.Pos()
	if !pos.IsValid() {
		return "return"
	}
	fn := fr.fn
	syn := fn.Syntax()
	if syn == nil {
		return "return"
	}
	var found ast.Node
	ast.Inspect(syn, func(n ast.Node) bool {
		if r, ok := n.(*ast.ReturnStmt); ok && r.Pos() == pos {
			found = r
		}
		return found == nil
	})
	if found == nil {
		return "return"
	}
	var buf bytes.Buffer
	printer.Fprint(&buf, eng.fset, found)
	s := strings.Join(strings.Fields(buf.String()), " ")
	if len(s) > 50 {
		s = s[:50]
	}
	return s
}

var _ = ast.Inspect

// rangeBound recognises go/ssa's range-over-slice lowering
//	i = phi [-1, i+1]; i1 = i + 1; if i1 < n
// and returns n (defined before the loop).
func rangeBound(phi *ssa.Phi) ssa.Value {
	b := phi.Block()
	for _, ins := range b.Instrs {
		cmp, ok := ins.(*ssa.BinOp)
		if !ok || cmp.Op != token.LSS {
			continue
		}
		inc, ok := cmp.X.(*ssa.BinOp)
		if !ok || inc.Op != token.ADD || inc.X != phi {
			continue
		}
		if c, ok := inc.Y.(*ssa.Const); !ok || c.Int64() != 1 {
			continue
		}
		if v, ok := cmp.Y.(ssa.Instruction); ok {
			if v.Block() != b && v.Block().Dominates(b) {
				return cmp.Y
			}
		}
	}
	return nil
}

// havocGhostSet havocs the given ghost variables, arrays before the counters
// that delimit their append-only prefix.
func (vc *VC) havocGhostSet(st *State, names []string) {
	sort.Slice(names, func(i, j int) bool {
		ai := strings.HasPrefix(ghostSorts[names[i]], "(Array")
		aj := strings.HasPrefix(ghostSorts[names[j]], "(Array")
		if ai != aj {
			return ai
		}
		return names[i] < names[j]
	})
	for _, g := range names {
		if g == "$alloc" {
			continue
		}
		vc.havocGhost(st, g)
	}
}

// blockEntry merges the states of the forward predecessors of b and evaluates
// its φ-nodes.
func (fr *Frame) blockEntry(b *ssa.BasicBlock) (*State, Term, bool) {
	vc := fr.vc
	var conds []Term
	var sts []*State
	var preds []*ssa.BasicBlock
	for _, p := range b.Preds {
		if backEdge(p, b) {
			continue
		}
		if _, ok := fr.reach[p]; !ok {
			continue // unreachable predecessor (e.g. after panic)
		}
		c := fr.edge(p, b)
		conds = append(conds, c)
		sts = append(sts, fr.exit[p])
		preds = append(preds, p)
	}
	if len(conds) == 0 {
		return nil, "", false
	}
	rch := vc.define("reach", "Bool", or(conds...))
	cur := vc.merge(conds, sts)
	for _, ins := range b.Instrs {
		phi, ok := ins.(*ssa.Phi)
		if !ok {
			break
		}
		fr.vals[phi] = fr.phiValue(phi, b, preds, conds)
	}
	return cur, rch, true
}

// execBody executes the non-φ instructions of b.
func (fr *Frame) execBody(b *ssa.BasicBlock, cur *State, rch Term, backEdges bool) {
	vc := fr.vc
	fn := fr.fn
	fr.reach[b] = rch
	alive := true
	for _, ins := range b.Instrs {
		if _, ok := ins.(*ssa.Phi); ok {
			continue
		}
		switch x := ins.(type) {
		case *ssa.Return:
			var rv Val
			rv.T = fn.Signature.Results()
			for _, r := range x.Results {
				rv.C = append(rv.C, fr.value(r).C...)
			}
			fr.rets = append(fr.rets, retInfo{rch, rv, cur})
			if fr.top && fr.contract != nil {
				fr.checkEnsuresAt(x, rv, cur, rch)
			}
			alive = false
		case *ssa.Panic:
			if !fr.noSafety {
				vc.oblige("panic", fr.siteOf(x, "panic"), rch, "false", fr.safetyProps(), !fr.top, vc.pos(x.Pos()))
			}
			alive = false
		case *ssa.If, *ssa.Jump:
		default:
			if !fr.execAbstract(ins, cur, rch) {
				alive = false
			}
		}
		if !alive {
			break
		}
	}
	if alive {
		fr.exit[b] = cur
		if backEdges {
			for _, s := range b.Succs {
				if backEdge(b, s) {
					fr.backEdge(fr.loopHead[s], b, cur)
				}
			}
		}
	} else {
		delete(fr.reach, b)
	}
}

// execAbstract executes one instruction.  When the top-level contract says
// "abstract" and the instruction (or a callee inlined at it) uses a construct
// outside the supported subset, the path is cut off at this instruction: nothing
// that lies behind it on this path is examined, and the cut is reported as an
// unchecked assumption.  Without "abstract" the function fails closed.
func (fr *Frame) execAbstract(ins ssa.Instruction, cur *State, rch Term) (alive bool) {
	top := fr.vc.topFrame
	if top == nil || top.contract == nil || !top.contract.Abstract {
		fr.exec(ins, cur, rch)
		return true
	}
	alive = true
	defer func() {
		if r := recover(); r != nil {
			u, ok := r.(unsupported)
			if !ok {
				panic(r)
			}
			alive = false
			fr.vc.note("ABSTRACTED: paths through the instruction at %s (%s) are cut off and not examined: %s", fr.siteOf(ins, ins.String()), filepath.Base(fr.vc.pos(ins.Pos()).String()), u.Error())
		}
	}()
	fr.exec(ins, cur, rch)
	return true
}

func (fr *Frame) unrollBound(li *loopInfo) int {
	if fr.contract == nil {
		return 0
	}
	for _, cl := range fr.contract.Clauses {
		if (cl.Loop == li.ord || cl.Loop == -1) && cl.Kind == "unroll" {
			return cl.Unroll
		}
	}
	return 0
}

// unroll executes a loop whose trip count is bounded by a constant n times and
// adds an unwinding assertion (complete, not a bounded check): after n
// iterations the back edge must be infeasible.
func (fr *Frame) unroll(li *loopInfo, cur *State, rch Term, n int, ord []*ssa.BasicBlock) {
	vc := fr.vc
	head := li.head
	var blocks []*ssa.BasicBlock
	for _, b := range ord {
		if li.blocks[b] {
			blocks = append(blocks, b)
			fr.done[b] = true
			if b != head && fr.loopHead[b] != nil {
				unsup("nested loop inside an unrolled loop")
			}
		}
	}
	// values defined in the loop and used after it
	var liveOut []ssa.Value
	for _, b := range blocks {
		for _, ins := range b.Instrs {
			v, ok := ins.(ssa.Value)
			if !ok || v.Referrers() == nil {
				continue
			}
			for _, r := range *v.Referrers() {
				if r.Block() != nil && !li.blocks[r.Block()] {
					liveOut = append(liveOut, v)
					break
				}
			}
		}
	}
	type exitRec struct {
		cond Term
		st   *State
	}
	exitConds := map[[2]int][]Term{}       // exit edge -> per-iteration conditions
	blockExit := map[*ssa.BasicBlock][]exitRec{} // block with exit edges -> per-iteration (taken, state)
	var iterExit []Term                    // per iteration: some exit edge taken
	liveVals := map[ssa.Value][]Val{}
	var phis []*ssa.Phi
	for _, ins := range head.Instrs {
		if phi, ok := ins.(*ssa.Phi); ok {
			phis = append(phis, phi)
		} else {
			break
		}
	}
	for k := 0; ; k++ {
		if k == n {
			// unwinding assertion
			vc.oblige("unwind", fmt.Sprintf("loop%d:at most %d iterations", li.ord, n), "true", not(rch), fr.props, !fr.top, vc.pos(head.Instrs[0].Pos()))
			break
		}
		for _, b := range blocks {
			fr.curBlock = b
			if b == head {
				fr.execBody(b, cur, rch, false)
				continue
			}
			c, r, ok := fr.blockEntry(b)
			if !ok || r == "false" {
				continue
			}
			fr.execBody(b, c, r, false)
		}
		// collect exits and back edges of this iteration
		var anyExit []Term
		var backConds []Term
		var backSts []*State
		var backFrom []*ssa.BasicBlock
		for _, b := range blocks {
			if _, ok := fr.reach[b]; !ok {
				continue
			}
			var taken []Term
			for _, s := range b.Succs {
				if li.blocks[s] {
					if s == head {
						backConds = append(backConds, fr.edge(b, s))
						backSts = append(backSts, fr.exit[b])
						backFrom = append(backFrom, b)
					}
					continue
				}
				c := fr.edge(b, s)
				key := [2]int{b.Index, s.Index}
				exitConds[key] = append(exitConds[key], c)
				taken = append(taken, c)
			}
			if len(taken) > 0 {
				t := vc.define("exit", "Bool", or(taken...))
				blockExit[b] = append(blockExit[b], exitRec{t, fr.exit[b]})
				anyExit = append(anyExit, t)
			}
		}
		ie := vc.define("iterexit", "Bool", or(anyExit...))
		iterExit = append(iterExit, ie)
		for _, v := range liveOut {
			if val, ok := fr.vals[v]; ok {
				liveVals[v] = append(liveVals[v], val)
			} else {
				liveVals[v] = append(liveVals[v], Val{})
			}
		}
		// next iteration's header state
		if len(backConds) == 0 {
			rch = "false"
		} else {
			rch = vc.define("reach", "Bool", or(backConds...))
			cur = vc.merge(backConds, backSts)
			newPhi := map[*ssa.Phi]Val{}
			for _, phi := range phis {
				var vals []Val
				for _, from := range backFrom {
					for i, bp := range head.Preds {
						if bp == from {
							vals = append(vals, fr.value(phi.Edges[i]))
							break
						}
					}
				}
				newPhi[phi] = fr.mergeVals(phi.Type(), vals, backConds, phi.Name())
			}
			for phi, v := range newPhi {
				fr.vals[phi] = v
			}
		}
		// forget this iteration's block bookkeeping
		for _, b := range blocks {
			delete(fr.reach, b)
			delete(fr.exit, b)
			for _, s := range b.Succs {
				delete(fr.edgeCond, [2]int{b.Index, s.Index})
			}
		}
		if rch == "false" {
			break
		}
	}
	if fr.top {
		vc.caseGroups = append(vc.caseGroups, caseGroup{conds: iterExit, nAssert: len(vc.asserts)})
	}
	// publish merged exits for the blocks after the loop
	for b, recs := range blockExit {
		var conds []Term
		var sts []*State
		for _, r := range recs {
			conds = append(conds, r.cond)
			sts = append(sts, r.st)
		}
		fr.reach[b] = vc.define("reach", "Bool", or(conds...))
		fr.exit[b] = vc.merge(conds, sts)
	}
	for key, cs := range exitConds {
		fr.edgeCond[key] = vc.define("edge", "Bool", or(cs...))
	}
	for _, v := range liveOut {
		vals := liveVals[v]
		var vs []Val
		var cs []Term
		for k, val := range vals {
			if val.T == nil && len(val.C) == 0 {
				continue
			}
			vs = append(vs, val)
			cs = append(cs, iterExit[k])
		}
		if len(vs) > 0 {
			fr.vals[v] = fr.mergeVals(v.Type(), vs, cs, v.Name())
		}
	}
}
