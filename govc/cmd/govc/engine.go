package main

import (
	"bytes"
	"fmt"
	"go/ast"
	"go/printer"
	"go/token"
	"go/types"
	"os"
	"path/filepath"
	"regexp"
	"sort"
	"strings"

	"golang.org/x/tools/go/packages"
	"golang.org/x/tools/go/ssa"
	"golang.org/x/tools/go/ssa/ssautil"
)

type specFunc struct {
	args []string
	ret  string
}

type Engine struct {
	repo      string
	modPath   string
	fset      *token.FileSet
	pkgs      []*packages.Package
	prog      *ssa.Program
	spkgs     map[string]*ssa.Package // by import path
	contracts *ContractSet
	famSorts  map[string]string
	prelude   string
	specFuncs map[string]specFunc
	seqFuncs  map[string]specFunc
	typeIDs   map[string]int
	funcIDs   map[*ssa.Function]int
	globalIdx map[*ssa.Global]int
	globalByAddr map[Term]*ssa.Global
	errGlobals map[*ssa.Global]int
	modsets   map[*ssa.Function]*modset
	unmodelled map[string]int
	trustedUsed map[string]bool
	assumedInv  map[string]bool
	pendingHavoc map[string]bool
	srcCache  map[string][]byte
	fileOf    map[*ssa.Function]*ast.File
	allFuncs  map[*ssa.Function]bool
	specDir   string
	tier      string
	deferred  map[string]bool
}

func loadEngine(repo, specDir string) (*Engine, error) {
	eng := &Engine{repo: repo, famSorts: map[string]string{}, specFuncs: map[string]specFunc{}, seqFuncs: map[string]specFunc{},
		typeIDs: map[string]int{}, funcIDs: map[*ssa.Function]int{}, globalIdx: map[*ssa.Global]int{}, globalByAddr: map[Term]*ssa.Global{},
		modsets: map[*ssa.Function]*modset{}, unmodelled: map[string]int{}, trustedUsed: map[string]bool{}, assumedInv: map[string]bool{},
		pendingHavoc: map[string]bool{}, deferred: map[string]bool{}, srcCache: map[string][]byte{}, spkgs: map[string]*ssa.Package{}, specDir: specDir}
	fset := token.NewFileSet()
	eng.fset = fset
	cfg := &packages.Config{Mode: packages.LoadAllSyntax, Dir: repo, BuildFlags: []string{"-tags=verif"}, Fset: fset,
		Env: append(os.Environ(), "GOFLAGS=-mod=mod", "GOPROXY=off", "GOSUMDB=off", "GOTOOLCHAIN=local")}
	pkgs, err := packages.Load(cfg, "./...")
	if err != nil {
		return nil, err
	}
	nerr := 0
	packages.Visit(pkgs, nil, func(p *packages.Package) {
		for _, e := range p.Errors {
			fmt.Fprintln(os.Stderr, "load error:", e)
			nerr++
		}
	})
	if nerr > 0 {
		return nil, fmt.Errorf("%d package load errors", nerr)
	}
	eng.pkgs = pkgs
	prog, spkgs := ssautil.AllPackages(pkgs, ssa.GlobalDebug|ssa.InstantiateGenerics)
	prog.Build()
	eng.prog = prog
	pkgDirs := map[string]string{}
	for i, p := range pkgs {
		if spkgs[i] == nil {
			continue
		}
		eng.spkgs[p.PkgPath] = spkgs[i]
		if len(p.GoFiles) > 0 {
			pkgDirs[p.PkgPath] = filepath.Dir(p.GoFiles[0])
		}
		if eng.modPath == "" || len(p.PkgPath) < len(eng.modPath) {
			eng.modPath = p.PkgPath
		}
	}
	eng.contracts, err = loadContracts(repo, pkgDirs)
	if err != nil {
		return nil, err
	}
	eng.allFuncs = ssautil.AllFunctions(prog)
	eng.applySweeps()
	if err := eng.loadSpecs(); err != nil {
		return nil, err
	}
	return eng, nil
}

var defineFunRe = regexp.MustCompile(`^\((define-fun(?:-rec)?|declare-fun)\s+(\|[^|]+\||[^\s()]+)\s+\(((?:[^()]|\([^()]*\))*)\)\s+(\([^()]*\)|[^\s()]+)`)

func (eng *Engine) loadSpecs() error {
	files, _ := filepath.Glob(filepath.Join(eng.specDir, "*.smt2"))
	sort.Strings(files)
	var b strings.Builder
	b.WriteString("; address arithmetic: adr(base, k) = base + k (uninterpreted so that triggers match)\n(declare-fun adr (Int Int) Int)\n(assert (forall ((b Int) (k Int)) (! (= (adr b k) (+ b k)) :pattern ((adr b k)))))\n; read-only maps: number of entries of the map behind a handle\n(declare-fun maplen (Int) Int)\n(declare-fun maplo (Int) Int)\n(declare-fun maphi (Int) Int)\n")
	for _, f := range files {
		data, err := os.ReadFile(f)
		if err != nil {
			return err
		}
		b.WriteString("; --- " + filepath.Base(f) + "\n")
		b.Write(data)
		b.WriteString("\n")
		// index top-level definitions
		depth := 0
		start := -1
		s := string(data)
		for i := 0; i < len(s); i++ {
			switch s[i] {
			case ';':
				for i < len(s) && s[i] != '\n' {
					i++
				}
			case '(':
				if depth == 0 {
					start = i
				}
				depth++
			case ')':
				depth--
				if depth == 0 && start >= 0 {
					form := s[start : i+1]
					toks := splitTop(form[1 : len(form)-1])
					if len(toks) >= 4 && (toks[0] == "define-fun" || toks[0] == "define-fun-rec" || toks[0] == "declare-fun") {
						name := strings.Trim(toks[1], "|")
						var args []string
						inner := strings.TrimSpace(toks[2])
						if strings.HasPrefix(inner, "(") {
							for _, a := range splitTop(inner[1 : len(inner)-1]) {
								if toks[0] == "declare-fun" {
									args = append(args, a)
								} else {
									// (name Sort)
									ps := splitTop(a[1 : len(a)-1])
									if len(ps) == 2 {
										args = append(args, ps[1])
									}
								}
							}
						}
						sf := specFunc{args: args, ret: toks[3]}
						if len(args) >= 3 && args[0] == "(Array Int Int)" {
							eng.seqFuncs[name] = sf
						} else {
							eng.specFuncs[name] = sf
						}
					}
				}
			}
		}
	}
	eng.prelude = b.String()
	return nil
}

func splitSorts(s string) []string {
	var out []string
	depth := 0
	cur := ""
	for _, c := range s {
		switch c {
		case '(':
			depth++
			cur += string(c)
		case ')':
			depth--
			cur += string(c)
			if depth == 0 {
				out = append(out, strings.TrimSpace(cur))
				cur = ""
			}
		case ' ', '\t', '\n':
			if depth == 0 {
				if strings.TrimSpace(cur) != "" {
					out = append(out, strings.TrimSpace(cur))
				}
				cur = ""
			} else {
				cur += string(c)
			}
		default:
			cur += string(c)
		}
	}
	if strings.TrimSpace(cur) != "" {
		out = append(out, strings.TrimSpace(cur))
	}
	return out
}

// funcKey: "(*Visitor).uint16", "parseUint", "makeStructFold$1"
func funcKey(fn *ssa.Function) string {
	name := fn.Name()
	if recv := fn.Signature.Recv(); recv != nil {
		t := recv.Type()
		ptr := ""
		if p, ok := t.(*types.Pointer); ok {
			ptr = "*"
			t = p.Elem()
		}
		tn := t.String()
		if n, ok := t.(*types.Named); ok {
			tn = n.Obj().Name()
		}
		return "(" + ptr + tn + ")." + name
	}
	if fn.Parent() != nil {
		return funcKey(fn.Parent()) + "$" + strings.TrimPrefix(name, fn.Parent().Name()+"$")
	}
	return name
}

func (eng *Engine) pkgPathOf(fn *ssa.Function) string {
	if fn.Pkg != nil {
		return fn.Pkg.Pkg.Path()
	}
	if p := eng.pkgOfSynthetic(fn); p != nil {
		return p.Pkg.Path()
	}
	return ""
}

func (eng *Engine) pkgOfSynthetic(fn *ssa.Function) *ssa.Package {
	if fn.Pkg != nil {
		return fn.Pkg
	}
	if fn.Parent() != nil {
		return eng.pkgOfSynthetic(fn.Parent())
	}
	if recv := fn.Signature.Recv(); recv != nil {
		t := recv.Type()
		if p, ok := t.(*types.Pointer); ok {
			t = p.Elem()
		}
		if n, ok := t.(*types.Named); ok && n.Obj().Pkg() != nil {
			return eng.prog.Package(n.Obj().Pkg())
		}
	}
	return nil
}

func (eng *Engine) contractOf(fn *ssa.Function) *Contract {
	p := eng.pkgPathOf(fn)
	if p == "" {
		return nil
	}
	return eng.contracts.byKey[p+"::"+funcKey(fn)]
}

// lookupFunc finds the function for a contract key within a package.
func (eng *Engine) lookupFunc(pkgPath, key string) *ssa.Function {
	for fn := range eng.allFuncs {
		if eng.pkgPathOf(fn) == pkgPath && funcKey(fn) == key {
			return fn
		}
	}
	return nil
}

func (eng *Engine) typeID(t types.Type) int {
	k := types.TypeString(t, nil)
	return eng.typeIDByName(k)
}

func (eng *Engine) typeIDByName(k string) int {
	if id, ok := eng.typeIDs[k]; ok {
		return id
	}
	id := len(eng.typeIDs) + 1
	eng.typeIDs[k] = id
	return id
}

func (eng *Engine) funcID(fn *ssa.Function) Term {
	id, ok := eng.funcIDs[fn]
	if !ok {
		id = len(eng.funcIDs) + 1
		eng.funcIDs[fn] = id
	}
	return itoa(int64(id) + (1 << 40))
}

func (eng *Engine) importedPkg(fn *ssa.Function, name string) *types.Package {
	p := eng.pkgOfSynthetic(fn)
	if p == nil {
		return nil
	}
	for _, imp := range p.Pkg.Imports() {
		if imp.Name() == name {
			return imp
		}
	}
	// well-known packages usable in contracts even if not imported
	for _, pp := range eng.prog.AllPackages() {
		if pp.Pkg.Path() == name || (pp.Pkg.Name() == name && (pp.Pkg.Path() == "math" || pp.Pkg.Path() == "io" || pp.Pkg.Path() == "github.com/elastic/go-structform")) {
			return pp.Pkg
		}
	}
	return nil
}

func (eng *Engine) implementsFacts(vc *VC, f string, iface types.Type) {}

// sourceAt returns the normalised source text of the expression an
// instruction was generated from (via its position), used for stable
// obligation names.
func (eng *Engine) sourceAt(ins ssa.Instruction) string {
	pos := ins.Pos()
	if v, ok := ins.(ssa.Value); ok && !pos.IsValid() {
		_ = v
	}
	if !pos.IsValid() {
		return ""
	}
	fn := ins.Parent()
	node := eng.nodeAt(fn, pos)
	if node == nil {
		return ""
	}
	var buf bytes.Buffer
	printer.Fprint(&buf, eng.fset, node)
	s := strings.Join(strings.Fields(buf.String()), " ")
	if len(s) > 60 {
		s = s[:60]
	}
	return s
}

func (eng *Engine) nodeAt(fn *ssa.Function, pos token.Pos) ast.Node {
	for fn.Parent() != nil {
		fn = fn.Parent()
	}
	syn := fn.Syntax()
	if syn == nil {
		return nil
	}
	var best ast.Node
	ast.Inspect(syn, func(n ast.Node) bool {
		if n == nil {
			return false
		}
		if n.Pos() > pos || n.End() <= pos {
			return n.Pos() <= pos
		}
		switch x := n.(type) {
		case *ast.IndexExpr:
			if x.Lbrack == pos {
				best = n
			}
		case *ast.SliceExpr:
			if x.Lbrack == pos {
				best = n
			}
		case *ast.CallExpr:
			if x.Lparen == pos {
				best = n
			}
		case *ast.BinaryExpr:
			if x.OpPos == pos {
				best = n
			}
		case *ast.UnaryExpr:
			if x.OpPos == pos {
				best = n
			}
		case *ast.StarExpr:
			if x.Star == pos {
				best = n
			}
		case *ast.SelectorExpr:
			if x.Sel.Pos() == pos {
				best = n
			}
		case *ast.TypeAssertExpr:
			if x.Lparen == pos {
				best = n
			}
		case *ast.CompositeLit:
			if x.Lbrace == pos {
				best = n
			}
		case *ast.Ident:
			if x.Pos() == pos && best == nil {
				best = n
			}
		}
		return true
	})
	return best
}

func (eng *Engine) funcTypeSpec(t types.Type) func(fr *Frame, x *ssa.Call, fv Val, args []Val, st *State, rch Term) Val {
	return funcTypeSpecs[types.TypeString(t, func(p *types.Package) string { return p.Name() })]
}

var funcTypeSpecs = map[string]func(fr *Frame, x *ssa.Call, fv Val, args []Val, st *State, rch Term) Val{}

// applySweeps instantiates sweep templates on every matching function.
func (eng *Engine) applySweeps() {
	type fk struct {
		fn  *ssa.Function
		key string
	}
	byPkg := map[string][]fk{}
	for fn := range eng.allFuncs {
		if fn.Synthetic != "" || fn.Blocks == nil {
			continue
		}
		p := eng.pkgPathOf(fn)
		byPkg[p] = append(byPkg[p], fk{fn, funcKey(fn)})
	}
	for _, sw := range eng.contracts.sweeps {
		fks := byPkg[sw.Pkg]
		sort.Slice(fks, func(i, j int) bool { return fks[i].key < fks[j].key })
		for _, f := range fks {
			if !sw.Match.MatchString(f.key) || (sw.Except != nil && sw.Except.MatchString(f.key)) {
				continue
			}
			k := sw.Pkg + "::" + f.key
			c := eng.contracts.byKey[k]
			if c == nil {
				c = &Contract{Pkg: sw.Pkg, Key: f.key, File: sw.C.File, Line: sw.C.Line, Inline: true}
				eng.contracts.byKey[k] = c
			}
			for _, p := range sw.C.Props {
				if !hasProp(c.Props, p) {
					c.Props = append(c.Props, p)
				}
			}
			for _, cl := range sw.C.Clauses {
				cp := *cl
				if cp.Label != "" {
					cp.Label = sw.Name + "." + cp.Label
				} else if cp.Kind != "let" {
					cp.Label = sw.Name
				}
				if len(cp.Props) == 0 {
					cp.Props = sw.C.Props
				}
				c.Clauses = append(c.Clauses, &cp)
			}
		}
	}
}
