package main

// Type flattening, heap families and object layout.
//
// Memory model (Burstall/Bornat components + address arithmetic for arrays):
//   - every struct object of type T lives at an Int address r in "T-space"; a
//     leaf field reached by the static path f.g.h is the SMT array
//     F$T$f.g.h#comp : Array Int X, indexed by r.  Struct fields nested by
//     value are flattened into the enclosing object's families.
//   - elements of slices / arrays of scalar type E live in E$E#comp indexed by
//     element address (stride 1); elements of struct type T are T objects at
//     consecutive addresses (same families as heap objects of type T).
//   - a fixed array embedded in a struct object at address r occupies the
//     element addresses r+off .. r+off+N-1 (off from the object's layout), so
//     slicing it yields an ordinary slice value.
//   - allocation: a single counter; an object reserves 1 + sum of embedded
//     array lengths addresses, a slice allocation cap+1.

import (
	"fmt"
	"go/types"
	"strings"
)

type Leaf struct {
	Path string // dotted field path ("" for scalars)
	Comp string // component name within a multi-component scalar ("" | arr | len | cap | typ | val)
	Sort string // Int | Bool
	T    types.Type
}

func (l Leaf) key() string {
	s := l.Path
	if l.Comp != "" {
		s += "#" + l.Comp
	}
	return s
}

type unsupported struct{ msg string }

func (u unsupported) Error() string { return "unsupported-construct: " + u.msg }

func unsup(format string, args ...interface{}) {
	panic(unsupported{fmt.Sprintf(format, args...)})
}

func isFloat(t types.Type) bool {
	b, ok := t.Underlying().(*types.Basic)
	return ok && b.Info()&types.IsFloat != 0
}

func isInteger(t types.Type) bool {
	b, ok := t.Underlying().(*types.Basic)
	return ok && b.Info()&types.IsInteger != 0
}

func isUnsigned(t types.Type) bool {
	b, ok := t.Underlying().(*types.Basic)
	return ok && b.Info()&types.IsUnsigned != 0
}

func isString(t types.Type) bool {
	b, ok := t.Underlying().(*types.Basic)
	return ok && b.Info()&types.IsString != 0
}

func isBool(t types.Type) bool {
	b, ok := t.Underlying().(*types.Basic)
	return ok && b.Info()&types.IsBoolean != 0
}

func intBits(t types.Type) uint {
	b := t.Underlying().(*types.Basic)
	switch b.Kind() {
	case types.Int8, types.Uint8:
		return 8
	case types.Int16, types.Uint16:
		return 16
	case types.Int32, types.Uint32, types.Float32:
		return 32
	case types.Int64, types.Uint64, types.Int, types.Uint, types.Uintptr, types.Float64, types.UntypedInt, types.UnsafePointer:
		return 64
	case types.UntypedRune:
		return 32
	}
	unsup("intBits of %s", t)
	return 0
}

// scalarComps returns the component names and sorts of a non-struct type.
func scalarComps(t types.Type) (comps []string, sorts []string) {
	switch u := t.Underlying().(type) {
	case *types.Basic:
		switch {
		case u.Info()&types.IsBoolean != 0:
			return []string{""}, []string{"Bool"}
		case u.Info()&types.IsString != 0:
			return []string{"arr", "len"}, []string{"Int", "Int"}
		case u.Kind() == types.UntypedNil:
			return []string{""}, []string{"Int"}
		default:
			return []string{""}, []string{"Int"}
		}
	case *types.Pointer, *types.Map, *types.Chan, *types.Signature:
		return []string{""}, []string{"Int"}
	case *types.Slice:
		return []string{"arr", "len", "cap"}, []string{"Int", "Int", "Int"}
	case *types.Interface:
		return []string{"typ", "val"}, []string{"Int", "Int"}
	}
	unsup("scalarComps of %s", t)
	return
}

// leaves flattens a type into its scalar leaves.  Arrays by value are not
// flattened (they are addressed through the layout instead) and are skipped
// here; callers that need the array contents must go through places.
func leaves(t types.Type) []Leaf {
	var out []Leaf
	var rec func(t types.Type, path string)
	rec = func(t types.Type, path string) {
		switch u := t.Underlying().(type) {
		case *types.Struct:
			for i := 0; i < u.NumFields(); i++ {
				f := u.Field(i)
				p := f.Name()
				if path != "" {
					p = path + "." + p
				}
				rec(f.Type(), p)
			}
		case *types.Array:
			// embedded array: no leaf; handled through layout
		case *types.Tuple:
			for i := 0; i < u.Len(); i++ {
				rec(u.At(i).Type(), fmt.Sprintf("%s$%d", path, i))
			}
		default:
			cs, ss := scalarComps(t)
			for i := range cs {
				out = append(out, Leaf{Path: path, Comp: cs[i], Sort: ss[i], T: t})
			}
		}
	}
	rec(t, "")
	return out
}

func hasEmbeddedArray(t types.Type) bool {
	switch u := t.Underlying().(type) {
	case *types.Struct:
		for i := 0; i < u.NumFields(); i++ {
			if hasEmbeddedArray(u.Field(i).Type()) {
				return true
			}
		}
	case *types.Array:
		return true
	}
	return false
}

// embedded arrays of an object type, in declaration order, with their element
// offsets relative to the object address.
type embArr struct {
	Path string
	Off  int64
	N    int64
	Elem types.Type
}

func embeddedArrays(t types.Type) (arrs []embArr, reserve int64) {
	off := int64(1)
	var rec func(t types.Type, path string)
	rec = func(t types.Type, path string) {
		switch u := t.Underlying().(type) {
		case *types.Struct:
			for i := 0; i < u.NumFields(); i++ {
				f := u.Field(i)
				p := f.Name()
				if path != "" {
					p = path + "." + p
				}
				rec(f.Type(), p)
			}
		case *types.Array:
			if hasEmbeddedArray(u.Elem()) {
				unsup("array of arrays in %s", t)
			}
			arrs = append(arrs, embArr{Path: path, Off: off, N: u.Len(), Elem: u.Elem()})
			off += u.Len() + 1
		}
	}
	rec(t, "")
	return arrs, off
}

func embOffset(t types.Type, path string) int64 {
	arrs, _ := embeddedArrays(t)
	for _, a := range arrs {
		if a.Path == path {
			return a.Off
		}
	}
	unsup("no embedded array %q in %s", path, t)
	return 0
}

func reserveOf(t types.Type) int64 {
	_, r := embeddedArrays(t)
	return r
}

func typeKey(t types.Type) string {
	s := types.TypeString(t, func(p *types.Package) string { return p.Name() })
	r := strings.NewReplacer(" ", "_", "*", "ptr_", "[", "_L", "]", "R_", "{", "_", "}", "_", "(", "_", ")", "_", ",", "_", ";", "_", "/", "_", "\"", "_", ":", "_")
	return r.Replace(s)
}

func isStructObj(t types.Type) bool {
	_, ok := t.Underlying().(*types.Struct)
	return ok
}

// family name of a leaf of an object/element of type root.
func family(root types.Type, leafKey string) string {
	if isStructObj(root) {
		return "F$" + typeKey(root) + "$" + leafKey
	}
	// scalar element types: keyed by the underlying representation for the
	// plain numeric types so that named byte types alias correctly only with
	// themselves.
	k := typeKey(root)
	if k == "byte" {
		k = "uint8"
	}
	if leafKey != "" {
		return "E$" + k + leafKey // leafKey begins with '#'
	}
	return "E$" + k
}

func rangeOf(t types.Type) (lo, hi Term, ok bool) {
	b, isb := t.Underlying().(*types.Basic)
	if !isb {
		return "", "", false
	}
	if b.Info()&types.IsInteger == 0 && b.Info()&types.IsFloat == 0 {
		return "", "", false
	}
	if b.Kind() == types.UntypedInt || b.Kind() == types.UntypedFloat || b.Kind() == types.UntypedRune {
		return "", "", false
	}
	n := intBits(t)
	if b.Info()&types.IsUnsigned != 0 || b.Info()&types.IsFloat != 0 {
		return "0", bigTerm(new(bigInt).Sub(pow2(n), bigOne)), true
	}
	return bigTerm(new(bigInt).Neg(pow2(n - 1))), bigTerm(new(bigInt).Sub(pow2(n-1), bigOne)), true
}
