package main

// SMT-LIB term construction helpers and the solver portfolio.

import (
	"bytes"
	"context"
	"fmt"
	"math/big"
	"os/exec"
	"strings"
	"time"
)

type Term = string

func sx(op string, args ...Term) Term {
	return "(" + op + " " + strings.Join(args, " ") + ")"
}

func itoa(n int64) Term {
	if n < 0 {
		return fmt.Sprintf("(- %d)", -n)
	}
	return fmt.Sprintf("%d", n)
}

func bigTerm(n *big.Int) Term {
	if n.Sign() < 0 {
		return "(- " + new(big.Int).Neg(n).String() + ")"
	}
	return n.String()
}

func pow2(n uint) *big.Int { return new(big.Int).Lsh(big.NewInt(1), n) }

func pow2T(n uint) Term { return pow2(n).String() }

func and(ts ...Term) Term {
	var out []Term
	for _, t := range ts {
		if t == "true" {
			continue
		}
		if t == "false" {
			return "false"
		}
		out = append(out, t)
	}
	switch len(out) {
	case 0:
		return "true"
	case 1:
		return out[0]
	}
	return sx("and", out...)
}

func or(ts ...Term) Term {
	var out []Term
	for _, t := range ts {
		if t == "false" {
			continue
		}
		if t == "true" {
			return "true"
		}
		out = append(out, t)
	}
	switch len(out) {
	case 0:
		return "false"
	case 1:
		return out[0]
	}
	return sx("or", out...)
}

func not(t Term) Term {
	if t == "true" {
		return "false"
	}
	if t == "false" {
		return "true"
	}
	if strings.HasPrefix(t, "(not ") {
		return t[5 : len(t)-1]
	}
	return sx("not", t)
}

func implies(a, b Term) Term {
	if a == "true" {
		return b
	}
	if a == "false" || b == "true" {
		return "true"
	}
	return sx("=>", a, b)
}

func ite(c, a, b Term) Term {
	if c == "true" {
		return a
	}
	if c == "false" {
		return b
	}
	if a == b {
		return a
	}
	return sx("ite", c, a, b)
}

func eq(a, b Term) Term {
	if a == b {
		return "true"
	}
	return sx("=", a, b)
}

func add(a, b Term) Term {
	if a == "0" {
		return b
	}
	if b == "0" {
		return a
	}
	// fold literal offsets: (+ (+ x 3) 4) -> (+ x 7), 3 + 4 -> 7
	if nb, ok := smallLit(b); ok {
		if na, ok := smallLit(a); ok {
			return itoa(na + nb)
		}
		if strings.HasPrefix(a, "(+ ") {
			if i := strings.LastIndexByte(a, ' '); i > 0 {
				if na, ok := smallLit(a[i+1 : len(a)-1]); ok {
					if na+nb == 0 {
						return a[3:i]
					}
					return a[:i+1] + itoa(na+nb) + ")"
				}
			}
		}
	}
	// address normal form: (+ base offset) -- offsets accumulate in the second
	// argument so that triggers of the form (select A (+ base k)) match
	if strings.HasPrefix(a, "(+ ") {
		if ps := splitTop(a[3 : len(a)-1]); len(ps) == 2 {
			return sx("+", ps[0], add(ps[1], b))
		}
	}
	return sx("+", a, b)
}

// adr builds the address of element off of the array at base.  Addresses are
// kept in the normal form (adr ROOT offset) with an uninterpreted adr (axiom:
// adr(b,k) = b+k): solvers flatten nested sums, which breaks E-matching of
// triggers such as (select H (+ base k)); they leave adr alone.
func adr(base, off Term) Term {
	if strings.HasPrefix(base, "(adr ") {
		if ps := splitTop(base[5 : len(base)-1]); len(ps) == 2 {
			return sx("adr", ps[0], add(ps[1], off))
		}
	}
	return sx("adr", base, off)
}

func smallLit(t Term) (int64, bool) {
	if len(t) == 0 || len(t) > 15 {
		return 0, false
	}
	var n int64
	for _, c := range t {
		if c < '0' || c > '9' {
			return 0, false
		}
		n = n*10 + int64(c-'0')
	}
	return n, true
}

func sub(a, b Term) Term {
	if b == "0" {
		return a
	}
	return sx("-", a, b)
}

func sel(a, i Term) Term      { return sx("select", a, i) }
func store(a, i, v Term) Term { return sx("store", a, i, v) }

// ---------------------------------------------------------------------------
// Solver portfolio

type SolverResult struct {
	Status string // unsat | sat | unknown | timeout | error
	Solver string
	Time   float64
	Output string
	Model  string
}

type solverSpec struct {
	name string
	argv func(timeoutS int) []string
	pre  string
}

var solvers = []solverSpec{
	{"z3-new", func(t int) []string { return []string{"z3-new", "-in", "-smt2", fmt.Sprintf("-T:%d", t)} }, ""},
	{"z3", func(t int) []string { return []string{"z3", "-in", "-smt2", fmt.Sprintf("-T:%d", t)} }, ""},
	{"cvc5", func(t int) []string {
		return []string{"cvc5", "--lang=smt2", fmt.Sprintf("--tlimit=%d", t*1000), "--produce-models", "-"}
	}, ""},
}

func runSolver(sp solverSpec, query string, timeoutS int) SolverResult {
	return runSolverCtx(context.Background(), sp, query, timeoutS)
}

// at most this many solver processes at a time (16 cores): oversubscription
// turns fast queries into timeouts
var solverSlots = make(chan struct{}, 15)

func runSolverCtx(parent context.Context, sp solverSpec, query string, timeoutS int) SolverResult {
	select {
	case solverSlots <- struct{}{}:
	case <-parent.Done():
		return SolverResult{Status: "cancelled", Solver: sp.name}
	}
	defer func() { <-solverSlots }()
	ctx, cancel := context.WithTimeout(parent, time.Duration(timeoutS+2)*time.Second)
	defer cancel()
	argv := sp.argv(timeoutS)
	cmd := exec.CommandContext(ctx, argv[0], argv[1:]...)
	cmd.Stdin = strings.NewReader(query)
	var out bytes.Buffer
	cmd.Stdout = &out
	cmd.Stderr = &out
	t0 := time.Now()
	_ = cmd.Run()
	el := time.Since(t0).Seconds()
	s := out.String()
	first := ""
	rest := s
	for _, l := range strings.Split(s, "\n") {
		t := strings.TrimSpace(l)
		if t == "" || strings.HasPrefix(t, "WARNING") || strings.Contains(t, "cvc5 will make all theories") || strings.Contains(t, "set-logic") {
			continue
		}
		first = t
		if i := strings.Index(s, l); i >= 0 {
			rest = s[i:]
		}
		break
	}
	res := SolverResult{Solver: sp.name, Time: el, Output: s}
	switch {
	case first == "unsat":
		res.Status = "unsat"
	case first == "sat":
		res.Status = "sat"
		if i := strings.IndexByte(rest, '\n'); i >= 0 {
			res.Model = rest[i+1:]
		}
	case first == "unknown":
		res.Status = "unknown"
	case first == "timeout" || ctx.Err() != nil || strings.Contains(first, "interrupted"):
		res.Status = "timeout"
	default:
		res.Status = "error"
	}
	return res
}

// solve runs the portfolio: z3-new first with a short budget, then a race of
// all three with the full budget.  "proved" needs an unsat from some solver and
// no sat from any.
func solve(query string, getValues []string, timeoutS int, allMustAgree bool) (final SolverResult, all []SolverResult) {
	q := query + "(check-sat)\n"
	qm := q
	if len(getValues) > 0 {
		qm = query + "(check-sat)\n(get-value (" + strings.Join(getValues, " ") + "))\n"
	}
	mk := func(sp solverSpec) string {
		if sp.name == "cvc5" {
			return "(set-option :produce-models true)\n(set-logic ALL)\n" + qm
		}
		return "(set-option :produce-models true)\n" + qm
	}
	ctx, cancelAll := context.WithCancel(context.Background())
	defer cancelAll()
	use := solvers
	if !allMustAgree {
		// quick: z3-new and cvc5 race; the old z3 joins only in thorough runs
		use = []solverSpec{solvers[0], solvers[2]}
	}
	ch := make(chan SolverResult, len(use))
	for _, sp := range use {
		sp := sp
		go func() { ch <- runSolverCtx(ctx, sp, mk(sp), timeoutS) }()
	}
	var got []SolverResult
	for range use {
		r := <-ch
		got = append(got, r)
		all = append(all, r)
		if !allMustAgree && (r.Status == "unsat" || r.Status == "sat") {
			return r, all
		}
	}
	// pick: sat beats unsat (conservative), unsat beats unknown
	var best *SolverResult
	for i := range got {
		r := &got[i]
		switch r.Status {
		case "sat":
			return *r, all
		case "unsat":
			if best == nil || best.Status != "unsat" {
				best = r
			}
		default:
			if best == nil {
				best = r
			}
		}
	}
	return *best, all
}
