package main

// C19 frame sweep: outside package initialisation no function writes to memory
// that is rooted in a package-level variable.  The obligation "the target of
// this store is not global-rooted" is generated for every store-like
// instruction of every function of the repository and discharged by a
// conservative flow analysis over the SSA (roots: *ssa.Global; flows through
// field/index addressing, loads of pointer-like values, phi, conversions,
// calls: parameters and results by a context-insensitive fixpoint).  It is a
// frame condition of the contracts ("assigns nothing global"), decided
// syntactically, not by the SMT back end.

import (
	"fmt"
	"go/types"
	"sort"
	"strings"

	"golang.org/x/tools/go/ssa"
)

type frameSweep struct {
	eng         *Engine
	fns         []*ssa.Function
	taintParam  map[*ssa.Function]map[int]bool
	taintRet    map[*ssa.Function]bool
	taintFree   map[*ssa.Function]map[int]bool
	initReach   map[*ssa.Function]bool
	valTaint    map[ssa.Value]bool
	changed     bool
}

func pointerLike(t types.Type) bool {
	switch u := t.Underlying().(type) {
	case *types.Pointer, *types.Slice, *types.Map, *types.Chan, *types.Interface, *types.Signature:
		return true
	case *types.Struct:
		for i := 0; i < u.NumFields(); i++ {
			if pointerLike(u.Field(i).Type()) {
				return true
			}
		}
	case *types.Array:
		return pointerLike(u.Elem())
	case *types.Tuple:
		for i := 0; i < u.Len(); i++ {
			if pointerLike(u.At(i).Type()) {
				return true
			}
		}
	case *types.Basic:
		return u.Kind() == types.UnsafePointer
	}
	return false
}

func (fs *frameSweep) tainted(v ssa.Value) bool {
	switch x := v.(type) {
	case *ssa.Global:
		return true
	case *ssa.Parameter:
		fn := x.Parent()
		for i, p := range fn.Params {
			if p == x {
				return fs.taintParam[fn][i]
			}
		}
	case *ssa.FreeVar:
		fn := x.Parent()
		for i, p := range fn.FreeVars {
			if p == x {
				return fs.taintFree[fn][i]
			}
		}
	}
	return fs.valTaint[v]
}

func (fs *frameSweep) setVal(v ssa.Value, t bool) {
	if t && !fs.valTaint[v] {
		fs.valTaint[v] = true
		fs.changed = true
	}
}

func (fs *frameSweep) flow(fn *ssa.Function) {
	for _, b := range fn.Blocks {
		for _, ins := range b.Instrs {
			switch x := ins.(type) {
			case *ssa.FieldAddr:
				fs.setVal(x, fs.tainted(x.X))
			case *ssa.IndexAddr:
				fs.setVal(x, fs.tainted(x.X))
			case *ssa.Field:
				fs.setVal(x, fs.tainted(x.X) && pointerLike(x.Type()))
			case *ssa.Index:
				fs.setVal(x, fs.tainted(x.X) && pointerLike(x.Type()))
			case *ssa.Lookup:
				fs.setVal(x, fs.tainted(x.X) && pointerLike(x.Type()))
			case *ssa.UnOp:
				// a pointer-like value loaded from global-rooted memory is global-rooted
				fs.setVal(x, fs.tainted(x.X) && pointerLike(x.Type()))
			case *ssa.Slice:
				fs.setVal(x, fs.tainted(x.X))
			case *ssa.Phi:
				for _, e := range x.Edges {
					fs.setVal(x, fs.tainted(e))
				}
			case *ssa.ChangeType:
				fs.setVal(x, fs.tainted(x.X))
			case *ssa.Convert:
				fs.setVal(x, fs.tainted(x.X) && pointerLike(x.Type()))
			case *ssa.ChangeInterface:
				fs.setVal(x, fs.tainted(x.X))
			case *ssa.MakeInterface:
				fs.setVal(x, fs.tainted(x.X) && pointerLike(x.X.Type()))
			case *ssa.TypeAssert:
				fs.setVal(x, fs.tainted(x.X))
			case *ssa.Extract:
				fs.setVal(x, fs.tainted(x.Tuple) && pointerLike(x.Type()))
			case *ssa.MakeClosure:
				if cf, ok := x.Fn.(*ssa.Function); ok {
					for i, bnd := range x.Bindings {
						if fs.tainted(bnd) {
							if fs.taintFree[cf] == nil {
								fs.taintFree[cf] = map[int]bool{}
							}
							if !fs.taintFree[cf][i] {
								fs.taintFree[cf][i] = true
								fs.changed = true
							}
						}
					}
				}
			case *ssa.Call:
				fs.flowCall(fn, x)
			case *ssa.Return:
				for _, r := range x.Results {
					if fs.tainted(r) && !fs.taintRet[fn] {
						fs.taintRet[fn] = true
						fs.changed = true
					}
				}
			}
		}
	}
}

func (fs *frameSweep) callees(c *ssa.CallCommon) []*ssa.Function {
	if c.IsInvoke() {
		return fs.eng.implementations(c)
	}
	if f := c.StaticCallee(); f != nil {
		return []*ssa.Function{f}
	}
	return nil
}

func (fs *frameSweep) flowCall(fn *ssa.Function, x *ssa.Call) {
	c := x.Common()
	cs := fs.callees(c)
	args := c.Args
	anyArg := false
	for _, a := range args {
		if fs.tainted(a) {
			anyArg = true
		}
	}
	if c.IsInvoke() && fs.tainted(c.Value) {
		anyArg = true
	}
	if len(cs) == 0 {
		// builtin / unknown / std: result may alias a tainted argument
		if b, ok := c.Value.(*ssa.Builtin); ok {
			switch b.Name() {
			case "append":
				fs.setVal(x, fs.tainted(args[0]))
				return
			case "len", "cap", "copy", "delete", "print", "println", "min", "max":
				return
			}
		}
		fs.setVal(x, anyArg && pointerLike(x.Type()))
		return
	}
	for _, callee := range cs {
		if callee.Blocks == nil || !strings.HasPrefix(fs.eng.pkgPathOf(callee), fs.eng.modPath) {
			fs.setVal(x, anyArg && pointerLike(x.Type()))
			continue
		}
		off := 0
		if c.IsInvoke() {
			off = 1
			if fs.tainted(c.Value) {
				fs.markParam(callee, 0)
			}
		}
		for i, a := range args {
			if fs.tainted(a) {
				fs.markParam(callee, i+off)
			}
		}
		if fs.taintRet[callee] {
			fs.setVal(x, pointerLike(x.Type()))
		}
	}
}

func (fs *frameSweep) markParam(fn *ssa.Function, i int) {
	if fs.taintParam[fn] == nil {
		fs.taintParam[fn] = map[int]bool{}
	}
	if !fs.taintParam[fn][i] {
		fs.taintParam[fn][i] = true
		fs.changed = true
	}
}

// synchronised: coarse escape hatch — a function that takes a sync lock or
// uses sync/atomic, sync.Once or sync.Map is assumed to guard its shared
// accesses correctly (a correctly locked shared cache must not alarm).
func synchronised(fn *ssa.Function) bool {
	for _, b := range fn.Blocks {
		for _, ins := range b.Instrs {
			var c *ssa.CallCommon
			switch x := ins.(type) {
			case *ssa.Call:
				c = x.Common()
			case *ssa.Defer:
				c = x.Common()
			}
			if c == nil {
				continue
			}
			if f := c.StaticCallee(); f != nil && f.Pkg != nil {
				p := f.Pkg.Pkg.Path()
				if p == "sync" || p == "sync/atomic" {
					return true
				}
			}
		}
	}
	return false
}

type frameOblig struct {
	Name   string
	Pos    string
	OK     bool
	Reason string
}

func (eng *Engine) runFrameSweep() []frameOblig {
	fs := &frameSweep{eng: eng, taintParam: map[*ssa.Function]map[int]bool{}, taintRet: map[*ssa.Function]bool{},
		taintFree: map[*ssa.Function]map[int]bool{}, valTaint: map[ssa.Value]bool{}, initReach: map[*ssa.Function]bool{}}
	for fn := range eng.allFuncs {
		if fn.Blocks == nil || !strings.HasPrefix(eng.pkgPathOf(fn), eng.modPath) {
			continue
		}
		if fn.Pkg != nil {
			for _, f := range fn.Pkg.Pkg.Scope().Names() {
				_ = f
			}
		}
		fs.fns = append(fs.fns, fn)
	}
	sort.Slice(fs.fns, func(i, j int) bool { return fs.fns[i].String() < fs.fns[j].String() })
	// functions only reachable from package initialisers may write globals
	var mark func(fn *ssa.Function)
	mark = func(fn *ssa.Function) {
		if fs.initReach[fn] {
			return
		}
		fs.initReach[fn] = true
		for _, b := range fn.Blocks {
			for _, ins := range b.Instrs {
				if c, ok := ins.(*ssa.Call); ok {
					if callee := c.Common().StaticCallee(); callee != nil && callee.Blocks != nil {
						mark(callee)
					}
				}
				if mc, ok := ins.(*ssa.MakeClosure); ok {
					if cf, ok := mc.Fn.(*ssa.Function); ok {
						_ = cf // closures created during init are checked like ordinary functions
					}
				}
			}
		}
	}
	isInit := func(fn *ssa.Function) bool {
		return fn.Parent() == nil && fn.Signature.Recv() == nil && (fn.Name() == "init" || strings.HasPrefix(fn.Name(), "init#"))
	}
	for _, fn := range fs.fns {
		if isInit(fn) {
			mark(fn)
		}
	}
	// a function also called from non-init code is not exempt
	calledFromNonInit := map[*ssa.Function]bool{}
	for _, fn := range fs.fns {
		if fs.initReach[fn] {
			continue
		}
		for _, b := range fn.Blocks {
			for _, ins := range b.Instrs {
				if c, ok := ins.(*ssa.Call); ok {
					for _, callee := range fs.callees(c.Common()) {
						calledFromNonInit[callee] = true
					}
				}
			}
		}
	}
	for iter := 0; iter < 50; iter++ {
		fs.changed = false
		for _, fn := range fs.fns {
			fs.flow(fn)
		}
		if !fs.changed {
			break
		}
	}
	var out []frameOblig
	for _, fn := range fs.fns {
		exempt := isInit(fn) || (fs.initReach[fn] && !calledFromNonInit[fn] && !exportedAPI(fn))
		sync := synchronised(fn)
		cnt := map[string]int{}
		for _, b := range fn.Blocks {
			for _, ins := range b.Instrs {
				var target ssa.Value
				kind := ""
				switch x := ins.(type) {
				case *ssa.Store:
					target, kind = x.Addr, "store"
				case *ssa.MapUpdate:
					target, kind = x.Map, "mapupdate"
				case *ssa.Call:
					if bi, ok := x.Common().Value.(*ssa.Builtin); ok {
						switch bi.Name() {
						case "copy":
							target, kind = x.Common().Args[0], "copy"
						case "delete":
							target, kind = x.Common().Args[0], "delete"
						case "append":
							target, kind = x.Common().Args[0], "append"
						}
					}
				}
				if target == nil {
					continue
				}
				site := eng.sourceAt(ins)
				if site == "" {
					site = kind
				}
				key := kind + ":" + site
				cnt[key]++
				name := fmt.Sprintf("%s.%s#frame-global:%s", shortPkg(eng.pkgPathOf(fn)), funcKey(fn), key)
				if cnt[key] > 1 {
					name += fmt.Sprintf("#%d", cnt[key])
				}
				ob := frameOblig{Name: name, Pos: eng.fset.Position(ins.Pos()).String(), OK: true}
				if fs.tainted(target) && !exempt && !sync {
					ob.OK = false
					ob.Reason = "the target of this " + kind + " is reachable from a package-level variable; two goroutines with independent instances would share it"
				}
				out = append(out, ob)
			}
		}
	}
	return out
}

func exportedAPI(fn *ssa.Function) bool {
	return fn.Object() != nil && fn.Object().Exported()
}
