package main

// C19 frame sweep: outside package initialisation no function writes to memory
// that is rooted in a package-level variable.  The obligation "the target of
// this store is not global-rooted" is generated for every store-like
// instruction of every function of the repository and discharged by a
// conservative flow analysis over the SSA (roots: *ssa.Global; flows through
// field/index addressing, loads of pointer-like values, phi, conversions,
// calls: parameters and results by a context-insensitive fixpoint).  It is a
// frame condition of the contracts ("assigns nothing global"), decided
// syntactically, not by the SMT back end.

import (
	"fmt"
	"os"
	"go/token"
	"go/types"
	"sort"
	"strings"

	"golang.org/x/tools/go/ssa"
)

type frameSweep struct {
	eng         *Engine
	fns         []*ssa.Function
	taintParam  map[*ssa.Function]map[int]bool
	taintRet    map[*ssa.Function]bool
	taintFree   map[*ssa.Function]map[int]bool
	initReach   map[*ssa.Function]bool
	valTaint    map[ssa.Value]bool
	fieldTaint  map[*types.Var]bool
	escParam    map[*ssa.Function]map[int]bool
	escRet      map[*ssa.Function]bool
	changed     bool
}

// fieldOf returns the struct field addressed by a FieldAddr / read by a Field.
func structFieldOf(t types.Type, i int) *types.Var {
	if p, ok := t.Underlying().(*types.Pointer); ok {
		t = p.Elem()
	}
	if st, ok := t.Underlying().(*types.Struct); ok && i < st.NumFields() {
		return st.Field(i)
	}
	return nil
}

// directGlobal: v is the address of (part of) a package-level variable's own
// storage, derived without any load: &g, &g.f, &g[i], g[:].
func directGlobal(v ssa.Value, depth int) bool {
	if depth > 8 {
		return false
	}
	switch x := v.(type) {
	case *ssa.Global:
		return true
	case *ssa.FieldAddr:
		return directGlobal(x.X, depth+1)
	case *ssa.IndexAddr:
		return directGlobal(x.X, depth+1)
	case *ssa.Slice:
		return directGlobal(x.X, depth+1)
	case *ssa.ChangeType:
		return directGlobal(x.X, depth+1)
	case *ssa.Convert:
		return directGlobal(x.X, depth+1)
	}
	return false
}

// ptrToStruct: fields of type *T (T a struct) name a specific object the
// instance works with (a registry, a cache); a global-rooted pointer kept in
// such a field makes every load of the field global-rooted.  Interface, func
// and unsafe.Pointer fields are left out: in this code base they carry
// stateless package-level singletons through generic stacks, and tainting them
// field-insensitively floods every store through the stacks with alarms.
func ptrToStruct(t types.Type) bool {
	if p, ok := t.Underlying().(*types.Pointer); ok {
		_, ok := p.Elem().Underlying().(*types.Struct)
		return ok
	}
	return false
}

func (fs *frameSweep) escapeClosure(v ssa.Value, depth int) {
	if depth > 8 {
		return
	}
	switch x := v.(type) {
	case *ssa.MakeClosure:
		if cf, ok := x.Fn.(*ssa.Function); ok {
			for i := range x.Bindings {
				if fs.taintFree[cf] == nil {
					fs.taintFree[cf] = map[int]bool{}
				}
				if !fs.taintFree[cf][i] {
					fs.taintFree[cf][i] = true
					fs.changed = true
				}
			}
		}
	case *ssa.Call:
		if callee := x.Common().StaticCallee(); callee != nil && callee.Blocks != nil && !fs.escRet[callee] {
			fs.escRet[callee] = true
			fs.changed = true
		}
	case *ssa.Extract:
		fs.escapeClosure(x.Tuple, depth+1)
	case *ssa.MakeInterface:
		fs.escapeClosure(x.X, depth+1)
	case *ssa.ChangeType:
		fs.escapeClosure(x.X, depth+1)
	case *ssa.Phi:
		for _, e := range x.Edges {
			fs.escapeClosure(e, depth+1)
		}
	}
}

// markEscape: v is stored into global-rooted memory, so whatever it points to
// is shared from now on (flow-insensitively: for the whole function).
func (fs *frameSweep) markEscape(v ssa.Value, depth int) {
	if depth > 8 || !pointerLike(v.Type()) {
		return
	}
	if c, ok := v.(*ssa.Const); ok && c.IsNil() {
		return
	}
	switch x := v.(type) {
	case *ssa.Global, *ssa.Function, *ssa.Const:
		return
	case *ssa.Parameter:
		fn := x.Parent()
		for i, p := range fn.Params {
			if p == x {
				if fs.escParam[fn] == nil {
					fs.escParam[fn] = map[int]bool{}
				}
				if !fs.escParam[fn][i] {
					fs.escParam[fn][i] = true
					fs.changed = true
				}
			}
		}
	case *ssa.MakeClosure:
		if cf, ok := x.Fn.(*ssa.Function); ok {
			for i, bnd := range x.Bindings {
				if fs.taintFree[cf] == nil {
					fs.taintFree[cf] = map[int]bool{}
				}
				if !fs.taintFree[cf][i] {
					fs.taintFree[cf][i] = true
					fs.changed = true
				}
				fs.markEscape(bnd, depth+1)
			}
		}
	case *ssa.Call:
		for _, callee := range []*ssa.Function{x.Common().StaticCallee()} {
			if callee != nil && callee.Blocks != nil && !fs.escRet[callee] {
				fs.escRet[callee] = true
				fs.changed = true
			}
		}
	case *ssa.Extract:
		fs.markEscape(x.Tuple, depth+1)
	case *ssa.MakeInterface:
		fs.markEscape(x.X, depth+1)
	case *ssa.ChangeType:
		fs.markEscape(x.X, depth+1)
	case *ssa.ChangeInterface:
		fs.markEscape(x.X, depth+1)
	case *ssa.Convert:
		fs.markEscape(x.X, depth+1)
	case *ssa.Slice:
		fs.markEscape(x.X, depth+1)
	case *ssa.Phi:
		for _, e := range x.Edges {
			fs.markEscape(e, depth+1)
		}
	}
	fs.setVal(v, true)
}

func pointerLike(t types.Type) bool {
	switch u := t.Underlying().(type) {
	case *types.Pointer, *types.Slice, *types.Map, *types.Chan, *types.Interface, *types.Signature:
		return true
	case *types.Struct:
		for i := 0; i < u.NumFields(); i++ {
			if pointerLike(u.Field(i).Type()) {
				return true
			}
		}
	case *types.Array:
		return pointerLike(u.Elem())
	case *types.Tuple:
		for i := 0; i < u.Len(); i++ {
			if pointerLike(u.At(i).Type()) {
				return true
			}
		}
	case *types.Basic:
		return u.Kind() == types.UnsafePointer
	}
	return false
}

func (fs *frameSweep) tainted(v ssa.Value) bool {
	switch x := v.(type) {
	case *ssa.Global:
		return true
	case *ssa.Parameter:
		fn := x.Parent()
		for i, p := range fn.Params {
			if p == x {
				return fs.taintParam[fn][i]
			}
		}
	case *ssa.FreeVar:
		fn := x.Parent()
		for i, p := range fn.FreeVars {
			if p == x {
				return fs.taintFree[fn][i]
			}
		}
	}
	return fs.valTaint[v]
}

func (fs *frameSweep) setVal(v ssa.Value, t bool) {
	if t && !fs.valTaint[v] {
		fs.valTaint[v] = true
		fs.changed = true
	}
}

func (fs *frameSweep) flow(fn *ssa.Function) {
	for _, b := range fn.Blocks {
		for _, ins := range b.Instrs {
			switch x := ins.(type) {
			case *ssa.FieldAddr:
				fs.setVal(x, fs.tainted(x.X))
			case *ssa.IndexAddr:
				fs.setVal(x, fs.tainted(x.X))
			case *ssa.Field:
				fs.setVal(x, fs.tainted(x.X) && pointerLike(x.Type()))
				if f := structFieldOf(x.X.Type(), x.Field); f != nil && fs.fieldTaint[f] {
					fs.setVal(x, pointerLike(x.Type()))
				}
			case *ssa.Store:
				if pointerLike(x.Val.Type()) && (directGlobal(x.Val, 0) || (fs.tainted(x.Val) && ptrToStruct(x.Val.Type()))) {
					// a global-rooted value kept in a field: every load of that
					// field (of any instance) may be global-rooted
					if fa, ok := x.Addr.(*ssa.FieldAddr); ok {
						if f := structFieldOf(fa.X.Type(), fa.Field); f != nil && !fs.fieldTaint[f] {
							fs.fieldTaint[f] = true
							fs.changed = true
							if os.Getenv("GOVC_DEBUG") != "" {
								fmt.Fprintf(os.Stderr, "fieldtaint %s.%s in %s: %s\n", fa.X.Type(), f.Name(), fn, fs.eng.sourceAt(x))
							}
						}
					}
				}
				if fs.tainted(x.Addr) {
					if os.Getenv("GOVC_DEBUG") != "" && pointerLike(x.Val.Type()) && !fs.valTaint[x.Val] {
						fmt.Fprintf(os.Stderr, "escape-store in %s: %s\n", fn, fs.eng.sourceAt(x))
					}
					fs.markEscape(x.Val, 0)
				}
			case *ssa.MapUpdate:
				if fs.tainted(x.Map) {
					if os.Getenv("GOVC_DEBUG") != "" && pointerLike(x.Value.Type()) && !fs.valTaint[x.Value] {
						fmt.Fprintf(os.Stderr, "escape-mapupdate in %s: %s\n", fn, fs.eng.sourceAt(x))
					}
					fs.markEscape(x.Value, 0)
					fs.markEscape(x.Key, 0)
				}
			case *ssa.Index:
				fs.setVal(x, fs.tainted(x.X) && pointerLike(x.Type()))
			case *ssa.Lookup:
				fs.setVal(x, fs.tainted(x.X) && pointerLike(x.Type()))
			case *ssa.UnOp:
				// a pointer-like value loaded from global-rooted memory is global-rooted
				fs.setVal(x, fs.tainted(x.X) && pointerLike(x.Type()))
				if fa, ok := x.X.(*ssa.FieldAddr); ok && x.Op == token.MUL {
					if f := structFieldOf(fa.X.Type(), fa.Field); f != nil && fs.fieldTaint[f] {
						fs.setVal(x, pointerLike(x.Type()))
					}
				}
			case *ssa.Slice:
				fs.setVal(x, fs.tainted(x.X))
			case *ssa.Phi:
				for _, e := range x.Edges {
					fs.setVal(x, fs.tainted(e))
				}
			case *ssa.ChangeType:
				fs.setVal(x, fs.tainted(x.X))
			case *ssa.Convert:
				fs.setVal(x, fs.tainted(x.X) && pointerLike(x.Type()))
			case *ssa.ChangeInterface:
				fs.setVal(x, fs.tainted(x.X))
			case *ssa.MakeInterface:
				fs.setVal(x, fs.tainted(x.X) && pointerLike(x.X.Type()))
			case *ssa.TypeAssert:
				fs.setVal(x, fs.tainted(x.X))
			case *ssa.Extract:
				fs.setVal(x, fs.tainted(x.Tuple) && pointerLike(x.Type()))
			case *ssa.MakeClosure:
				if cf, ok := x.Fn.(*ssa.Function); ok {
					for i, bnd := range x.Bindings {
						if fs.tainted(bnd) {
							if fs.taintFree[cf] == nil {
								fs.taintFree[cf] = map[int]bool{}
							}
							if !fs.taintFree[cf][i] {
								fs.taintFree[cf][i] = true
								fs.changed = true
							}
						}
					}
				}
			case *ssa.Call:
				fs.flowCall(fn, x)
			case *ssa.Return:
				if fs.escRet[fn] {
					// the result of some call of fn is published in global
					// memory.  fn's allocations are fresh per call, so only
					// the variables captured by a returned closure are marked
					// (closure code cannot tell its instances apart).
					for _, r := range x.Results {
						fs.escapeClosure(r, 0)
					}
				}
				for _, r := range x.Results {
					if fs.tainted(r) && !fs.taintRet[fn] {
						fs.taintRet[fn] = true
						fs.changed = true
					}
				}
			}
		}
	}
}

func (fs *frameSweep) callees(c *ssa.CallCommon) []*ssa.Function {
	if c.IsInvoke() {
		return fs.eng.implementations(c)
	}
	if f := c.StaticCallee(); f != nil {
		return []*ssa.Function{f}
	}
	return nil
}

func (fs *frameSweep) flowCall(fn *ssa.Function, x *ssa.Call) {
	c := x.Common()
	cs := fs.callees(c)
	args := c.Args
	anyArg := false
	for _, a := range args {
		if fs.tainted(a) {
			anyArg = true
		}
	}
	if c.IsInvoke() && fs.tainted(c.Value) {
		anyArg = true
	}
	if len(cs) == 0 {
		// builtin / unknown / std: result may alias a tainted argument
		if b, ok := c.Value.(*ssa.Builtin); ok {
			switch b.Name() {
			case "append":
				fs.setVal(x, fs.tainted(args[0]))
				return
			case "len", "cap", "copy", "delete", "print", "println", "min", "max":
				return
			}
		}
		fs.setVal(x, anyArg && pointerLike(x.Type()))
		return
	}
	for _, callee := range cs {
		if callee.Blocks == nil || !strings.HasPrefix(fs.eng.pkgPathOf(callee), fs.eng.modPath) {
			fs.setVal(x, anyArg && pointerLike(x.Type()))
			continue
		}
		off := 0
		if c.IsInvoke() {
			off = 1
			if fs.tainted(c.Value) {
				fs.markParam(callee, 0)
			}
		}
		for i, a := range args {
			if fs.tainted(a) {
				fs.markParam(callee, i+off)
			}
			if fs.escParam[callee][i+off] {
				fs.markEscape(a, 0)
			}
		}
		if c.IsInvoke() && fs.escParam[callee][0] {
			fs.markEscape(c.Value, 0)
		}
		if fs.taintRet[callee] {
			fs.setVal(x, pointerLike(x.Type()))
		}
	}
}

func (fs *frameSweep) markParam(fn *ssa.Function, i int) {
	if fs.taintParam[fn] == nil {
		fs.taintParam[fn] = map[int]bool{}
	}
	if !fs.taintParam[fn][i] {
		fs.taintParam[fn][i] = true
		fs.changed = true
	}
}

// synchronised: coarse escape hatch — a function that takes a sync lock or
// uses sync/atomic, sync.Once or sync.Map is assumed to guard its shared
// accesses correctly (a correctly locked shared cache must not alarm).
func synchronised(fn *ssa.Function) bool {
	for _, b := range fn.Blocks {
		for _, ins := range b.Instrs {
			var c *ssa.CallCommon
			switch x := ins.(type) {
			case *ssa.Call:
				c = x.Common()
			case *ssa.Defer:
				c = x.Common()
			}
			if c == nil {
				continue
			}
			if f := c.StaticCallee(); f != nil && f.Pkg != nil {
				p := f.Pkg.Pkg.Path()
				if p == "sync" || p == "sync/atomic" {
					return true
				}
			}
		}
	}
	return false
}

type frameOblig struct {
	Name   string
	Pos    string
	OK     bool
	Reason string
}

func (eng *Engine) runFrameSweep() []frameOblig {
	fs := &frameSweep{eng: eng, taintParam: map[*ssa.Function]map[int]bool{}, taintRet: map[*ssa.Function]bool{},
		taintFree: map[*ssa.Function]map[int]bool{}, valTaint: map[ssa.Value]bool{}, initReach: map[*ssa.Function]bool{},
		fieldTaint: map[*types.Var]bool{}, escParam: map[*ssa.Function]map[int]bool{}, escRet: map[*ssa.Function]bool{}}
	for fn := range eng.allFuncs {
		if fn.Blocks == nil || !strings.HasPrefix(eng.pkgPathOf(fn), eng.modPath) {
			continue
		}
		if fn.Pkg != nil {
			for _, f := range fn.Pkg.Pkg.Scope().Names() {
				_ = f
			}
		}
		fs.fns = append(fs.fns, fn)
	}
	sort.Slice(fs.fns, func(i, j int) bool { return fs.fns[i].String() < fs.fns[j].String() })
	// functions only reachable from package initialisers may write globals
	var mark func(fn *ssa.Function)
	mark = func(fn *ssa.Function) {
		if fs.initReach[fn] {
			return
		}
		fs.initReach[fn] = true
		for _, b := range fn.Blocks {
			for _, ins := range b.Instrs {
				if c, ok := ins.(*ssa.Call); ok {
					if callee := c.Common().StaticCallee(); callee != nil && callee.Blocks != nil {
						mark(callee)
					}
				}
				if mc, ok := ins.(*ssa.MakeClosure); ok {
					if cf, ok := mc.Fn.(*ssa.Function); ok {
						_ = cf // closures created during init are checked like ordinary functions
					}
				}
			}
		}
	}
	isInit := func(fn *ssa.Function) bool {
		return fn.Parent() == nil && fn.Signature.Recv() == nil && (fn.Name() == "init" || strings.HasPrefix(fn.Name(), "init#"))
	}
	for _, fn := range fs.fns {
		if isInit(fn) {
			mark(fn)
		}
	}
	// a function also called from non-init code is not exempt
	calledFromNonInit := map[*ssa.Function]bool{}
	for _, fn := range fs.fns {
		if fs.initReach[fn] {
			continue
		}
		for _, b := range fn.Blocks {
			for _, ins := range b.Instrs {
				if c, ok := ins.(*ssa.Call); ok {
					for _, callee := range fs.callees(c.Common()) {
						calledFromNonInit[callee] = true
					}
				}
			}
		}
	}
	for iter := 0; iter < 50; iter++ {
		fs.changed = false
		for _, fn := range fs.fns {
			fs.flow(fn)
		}
		if !fs.changed {
			break
		}
	}
	var out []frameOblig
	for _, fn := range fs.fns {
		exempt := isInit(fn) || (fs.initReach[fn] && !calledFromNonInit[fn] && !exportedAPI(fn))
		sync := synchronised(fn)
		cnt := map[string]int{}
		for _, b := range fn.Blocks {
			for _, ins := range b.Instrs {
				var target ssa.Value
				kind := ""
				switch x := ins.(type) {
				case *ssa.Store:
					target, kind = x.Addr, "store"
				case *ssa.MapUpdate:
					target, kind = x.Map, "mapupdate"
				case *ssa.Call:
					if bi, ok := x.Common().Value.(*ssa.Builtin); ok {
						switch bi.Name() {
						case "copy":
							target, kind = x.Common().Args[0], "copy"
						case "delete":
							target, kind = x.Common().Args[0], "delete"
						case "append":
							target, kind = x.Common().Args[0], "append"
						}
					}
				}
				if target == nil {
					continue
				}
				site := eng.sourceAt(ins)
				if site == "" {
					site = kind
				}
				key := kind + ":" + site
				cnt[key]++
				name := fmt.Sprintf("%s.%s#frame-global:%s", shortPkg(eng.pkgPathOf(fn)), funcKey(fn), key)
				if cnt[key] > 1 {
					name += fmt.Sprintf("#%d", cnt[key])
				}
				ob := frameOblig{Name: name, Pos: eng.fset.Position(ins.Pos()).String(), OK: true}
				if fs.tainted(target) && !exempt && !sync {
					ob.OK = false
					ob.Reason = "the target of this " + kind + " is reachable from a package-level variable; two goroutines with independent instances would share it"
				}
				out = append(out, ob)
			}
		}
	}
	return out
}

func exportedAPI(fn *ssa.Function) bool {
	return fn.Object() != nil && fn.Object().Exported()
}
