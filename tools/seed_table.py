#!/usr/bin/env python3
# Runs every seeded change in /verif/seeded/<id>/ (and every mutant of
# selftest/mutants) against the checks of its property and records which
# obligation catches it.  Writes seeded/DETECTION.md and updates meta.json.
import json,os,subprocess,sys,glob,re
root='/verif'
rows=[]
only=sys.argv[1:]
for d in sorted(glob.glob(root+'/seeded/*/')):
    sid=os.path.basename(d.rstrip('/'))
    if only and sid not in only: continue
    meta=json.load(open(d+'meta.json'))
    prop=meta['property']
    props=[prop]+meta.get('also_check',[])
    res=[]
    for p in props:
        out=subprocess.run([root+'/tools/mutcheck.sh',d+'patch.diff',p],capture_output=True,text=True).stdout.strip()
        res.append(out)
    killed=[r for r in res if r.startswith('KILLED')]
    meta['detection']={'checked_properties':props,'result':'caught' if killed else 'missed','detail':(killed or res)[0][:400]}
    json.dump(meta,open(d+'meta.json','w'),indent=1)
    first=''
    if killed:
        m=re.search(r'first: "([^"]*)"',killed[0]); first=m.group(1) if m else ''
    rows.append((sid,prop,'caught' if killed else 'MISSED',first[:110],meta.get('summary','')[:110]))
    print(rows[-1],flush=True)
# the table is always written from the detection recorded in every meta.json
rows=[]
for d in sorted(glob.glob(root+'/seeded/*/')):
    sid=os.path.basename(d.rstrip('/'))
    meta=json.load(open(d+'meta.json'))
    det=meta.get('detection')
    if not det: continue
    first=''
    m=re.search(r'first: "([^"]*)"',det.get('detail',''))
    if m: first=m.group(1)
    rows.append((sid,meta['property'],'caught' if det['result']=='caught' else 'MISSED',first[:110].replace('|','\\|'),meta.get('summary','')[:110].replace('|','\\|')))
with open(root+'/seeded/DETECTION.md','w') as f:
    f.write('| seed | property | result | first failing obligation | change |\n|---|---|---|---|---|\n')
    for r in rows: f.write('| %s | %s | %s | `%s` | %s |\n'%r)
