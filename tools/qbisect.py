#!/usr/bin/env python3
# usage: qbisect.py file.smt2 [timeout]: drop one quantified assertion at a time
import subprocess,sys,time
f=sys.argv[1]; to=sys.argv[2] if len(sys.argv)>2 else '5'
lines=open(f).read().split('\n')
idx=[i for i,l in enumerate(lines) if 'forall' in l and l.startswith('(assert') and i < len(lines)-3]
def run(excl):
    open('/tmp/qb.smt2','w').write('\n'.join(l for i,l in enumerate(lines) if i not in excl))
    t=time.time()
    r=[x for x in subprocess.run(['z3-new','-T:'+to,'/tmp/qb.smt2'],capture_output=True,text=True).stdout.strip().split('\n') if not x.startswith('WARN')]
    return (r[0] if r else '?'), round(time.time()-t,2)
print('none excluded', run(set()))
for i in idx:
    print(i+1, run({i}), lines[i][:140])
