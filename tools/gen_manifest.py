#!/usr/bin/env python3
# Generates /verif/MANIFEST.json from tools/claims.json (per-property claim texts).
import json,subprocess
props=[json.loads(l) for l in open('/verif/properties.jsonl')]
claims=json.load(open('/verif/tools/claims.json'))
hooks=subprocess.run(['git','-C','/repo','log','--format=%h %s'],capture_output=True,text=True).stdout.strip().split('\n')
hook_commits=[l.split()[0] for l in hooks if l.split(' ',1)[1].startswith('verif:')]
m={"version":1,
"setup_cmd":"cd /verif/govc && GOFLAGS=-mod=mod GOPROXY=off GOSUMDB=off GOTOOLCHAIN=local go build -o ../bin/govc ./cmd/govc",
"hooks":{"guard":"verif","enable":"govc loads /repo with -tags=verif; the tag only adds the comment-only contract files <pkg>/contracts_verif.go (no executable code, no accessors)","baseline_off_cmd":"cd /repo && GOFLAGS=-mod=mod GOPROXY=off GOSUMDB=off go test -vet=off -count=1 ./...","source_commits":hook_commits,"add_only":True},
"engines":[{"name":"govc","path":"/verif/govc","serves_properties":[c for c in claims if claims[c].get('claimed')],"kind_free_text":"contract-based deductive verifier for Go written for this task: VC generation by symbolic execution of go/ssa (x/tools v0.29.0) of the current /repo tree, contracts as //@ comments in /repo/<pkg>/contracts_verif.go (build tag verif), spec functions from the RFCs in /verif/spec/*.smt2, obligations discharged by z3 5.1.0 / cvc5 1.0.3 (z3 4.8.12 added in thorough runs)"},
{"name":"c20-bounded","path":"/verif/tools/c20_bounded.py","serves_properties":["C20"],"kind_free_text":"BOUNDED stand-in (not a proof) for the key cache, whose map + embedded-sentinel circular list are outside govc's reach: two exhaustive harnesses from /verif/bounded injected into /repo/gotype with go test -overlay (real code, rebuilt from the working tree), plus the govc obligations tagged C20 (symbolCache.init/enabled)"}],
"checks":[],"not_applicable":[],
"notes":"see DESIGN.md. Every check: cd /verif && bin/govc check -prop <id> -tier <tier>. A check fails closed: load errors, unsupported constructs in a function under contract, contract errors, vacuous preconditions and missing functions are reported as VIOLATION."}
for p in props:
    pid=p['id']; c=claims.get(pid,{})
    if c.get('claimed'):
        m['checks'].append({"property_id":pid,
          "quick_cmd":c.get("quick_cmd","cd /verif && bin/govc check -prop %s -tier quick"%pid),
          "thorough_cmd":c.get("thorough_cmd","cd /verif && bin/govc check -prop %s -tier thorough"%pid),
          "evidence_file":"/verif/evidence/%s.json"%pid,
          "replay_cmd_template":c.get("replay_cmd_template","cd /verif && bin/govc replay {path}"),
          "engine":c.get("engine","govc"),
          "level_claimed":{"category":c.get("category","proof"),"text":c['text'],"design_ref":c.get('design_ref','DESIGN.md section 3')},
          "level_note":c['note'],
          "technique":c.get('technique',"contract-based deductive verification: per-function contracts on the real code, VCs generated from go/ssa, discharged by z3/cvc5")})
    else:
        m['not_applicable'].append({"property_id":pid,"reason":c.get('reason',"contracts designed (DESIGN.md section 3) but not yet discharged")})
json.dump(m,open('/verif/MANIFEST.json','w'),indent=1)
print(len(m['checks']),'checks',len(m['not_applicable']),'n/a')
