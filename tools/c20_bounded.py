#!/usr/bin/env python3
"""C20 check: bounded, exhaustive stand-in (NOT a proof) run on the real code.

usage: tools/c20_bounded.py [quick|thorough]

Two harnesses from /verif/bounded are injected into /repo/gotype with
`go test -overlay` (nothing is written into /repo; the package is rebuilt from
/repo's working tree on every run):
  * c20_symbols_test.go  (package gotype)      symbolCache.init/get directly
  * c20_unfold_test.go   (package gotype_test) public API only, end to end
They are run separately so that a refactoring that makes the in-package
harness uncompilable still leaves the public-API harness deciding.
Writes /verif/evidence/C20.json; exit 1 with a VIOLATION line on any failing
sequence that known_findings.json does not list.
"""
import json, os, re, subprocess, sys, tempfile, time, shutil
tier = (sys.argv[1] if len(sys.argv) > 1 else os.environ.get('VERIF_TIER', 'quick'))
if tier not in ('quick', 'thorough'): tier = 'quick'
root = os.path.dirname(os.path.dirname(os.path.abspath(__file__)))
repo = os.environ.get('VERIF_REPO', '/repo')
replay_dir = os.environ.get('VERIF_REPLAY_DIR', os.path.join(root, 'replays'))
bounds = {'quick': dict(VERIF_C20_MAXCAP='4', VERIF_C20_MAXLEN='7', VERIF_C20_E2E_MAXLEN='5'),
          'thorough': dict(VERIF_C20_MAXCAP='5', VERIF_C20_MAXLEN='9', VERIF_C20_E2E_MAXLEN='7')}[tier]
env = dict(os.environ, GOFLAGS='-mod=mod', GOPROXY='off', GOSUMDB='off', GOTOOLCHAIN='local', **bounds)
t0 = time.time()
tmp = tempfile.mkdtemp(prefix='c20-', dir=os.environ.get('TMPDIR', '/var/tmp'))
harnesses = [('symbolCache', 'c20_symbols_test.go', 'TestVerifC20SymbolCache'),
             ('unfold', 'c20_unfold_test.go', 'TestVerifC20Unfold')]
stats, fails, notes, outputs = [], [], [], {}
try:
    for name, f, test in harnesses:
        ov = os.path.join(tmp, name + '.json')
        json.dump({'Replace': {os.path.join(repo, 'gotype', 'zz_verif_' + f): os.path.join(root, 'bounded', f)}}, open(ov, 'w'))
        cmd = ['go', 'test', '-overlay', ov, '-v', '-vet=off', '-count=1', '-timeout', '1200s', '-run', '^%s$' % test, './gotype']
        p = subprocess.run(cmd, cwd=repo, env=env, capture_output=True, text=True)
        out = p.stdout + p.stderr
        outputs[name] = out[-4000:]
        st = re.findall(r'^C20STATS (.*)$', out, re.M)
        fl = re.findall(r'^C20FAIL (.*)$', out, re.M)
        if st:
            d = dict(re.findall(r'(\w+)=("(?:[^"\\]|\\.)*"|\S+)', st[0]))
            stats.append(d)
        fails += fl
        if not st and not fl:
            if '[build failed]' in out or 'cannot use' in out or 'undefined:' in out:
                notes.append('harness %s does not compile against the current tree (not a verdict): %s' % (name, out.strip().splitlines()[0][:200] if out.strip() else ''))
            else:
                fails.append('harness=%s did not finish: %s' % (name, out.strip()[-300:].replace('\n', ' | ')))
finally:
    shutil.rmtree(tmp, ignore_errors=True)
# the deductive fragment: contracts tagged C20 in /repo/gotype/contracts_verif.go (init/enabled: a
# capacity <= 0 leaves the cache disabled), discharged by govc; its violations are passed through
gv = subprocess.run([os.path.join(root, 'bin', 'govc'), 'check', '-prop', 'C20', '-no-evidence'],
                    cwd=root, env=env, capture_output=True, text=True)
gout = gv.stdout + gv.stderr
gsum = re.search(r'functions=(\d+) obligations=(\d+) discharged=(\d+)', gout)
deductive = {'functions': int(gsum.group(1)), 'obligations': int(gsum.group(2)), 'discharged': int(gsum.group(3))} if gsum else {'error': gout[-300:]}
gviol = [l for l in gout.splitlines() if l.startswith('VIOLATION')]
for l in gviol: print(l)
if not gsum and not gviol:
    print('VIOLATION property=C20 replay=%s obligation="govc:C20" govc did not report: %s no-failing-input-found' % (os.path.join(replay_dir, 'C20'), gout.strip()[-200:].replace('\n', ' | ')))
    gviol = ['govc did not report']
kf = json.load(open(os.path.join(root, 'known_findings.json')))
known = [f for f in kf.get('findings', []) if f.get('property') == 'C20' and f.get('status') == 'open']
new_fails = []
for fl in fails:
    hit = [k for k in known if k.get('match') and k['match'] in fl]
    if hit:
        print('KNOWN-FINDING: property=C20 %s' % hit[0].get('what', fl))
    else:
        new_fails.append(fl)
compiled = len(stats)
sequences = sum(int(s.get('sequences', 0)) for s in stats)
nontrivial = sum(int(s.get('nontrivial', 0)) for s in stats)
violations = len(new_fails) + len(gviol)
if compiled == 0 and not new_fails:
    # neither harness could be built: nothing was decided; fail closed
    new_fails.append('no harness could be built against the current tree: ' + ' ; '.join(notes))
    violations = 1
ev = {
 'property_id': 'C20', 'tier': tier, 'seed': int(os.environ.get('VERIF_SEED', '0') or 0), 'level': 'exploration',
 'coverage': {
   'evaluations': max(sequences, 1), 'distinct_nontrivial': nontrivial,
   'rule': 'BOUNDED stand-in, not a proof. Exhaustive enumeration of every capacity in {-1(no cache),0..maxcap} x every key sequence up to maxlen over a fixed alphabet (incl. the empty key), each key handed over in one re-used buffer that is overwritten after the call; every returned string is compared with the key and re-read after every later overwrite. The end-to-end harness compares unfolding into map[string]interface{}, map[string]int, map[string]struct and interface{} with and without cache over one or two documents per unfolder. non-trivial = the sequence has a cache hit and a re-insertion after an eviction (symbolCache) / more distinct keys than capacity (unfold).',
   'exhaustive': True, 'bounds': bounds, 'deductive_fragment': deductive, 'harness_stats': stats,
   'samples': [s.get('sample', '').strip('"') for s in stats] or ['none'],
   'explanation': 'symbolCache is a map plus a circular list whose sentinel is embedded in the cache struct; govc has no map theory (lookups/updates/deletes are unsupported constructs) and its component memory model cannot let one pointer range over an embedded struct and heap objects, so no contract on get/add/lookup can be discharged. Per the brief a bounded check of that function stands in, labelled bounded and never counted as proved.'},
 'assumptions': ['bounded: capacities <= %s, sequences <= %s lookups (end to end <= %s keys) over a 4-5 key alphabet; larger capacities, longer histories and other key contents are NOT covered' % (bounds['VERIF_C20_MAXCAP'], bounds['VERIF_C20_MAXLEN'], bounds['VERIF_C20_E2E_MAXLEN']),
                 'the Go runtime map and string comparison are trusted', 'deductive fragment: only symbolCache.init/enabled are under contract (capacity <= 0 disables the cache); get/lookup/add/list operations are NOT (bounded stand-in)'] + notes,
 'wall_s': round(time.time() - t0, 2), 'violations': violations}
os.makedirs(os.path.join(root, 'evidence'), exist_ok=True)
if os.path.realpath(repo) == '/repo':  # runs against a scratch copy (mutation testing) leave the evidence alone
    json.dump(ev, open(os.path.join(root, 'evidence', 'C20.json'), 'w'), indent=1)
for n in notes: print('note:', n)
if gviol and not new_fails:
    print('c20: deductive fragment violated'); sys.exit(1)
if new_fails:
    d = os.path.join(replay_dir, 'C20'); os.makedirs(d, exist_ok=True)
    path = os.path.join(d, 'bounded_first_failure.json')
    json.dump({'property': 'C20', 'obligation': 'bounded:C20.keycache-transparent', 'failing_inputs': new_fails[:5],
               'replay_cmd': 'cd /verif && python3 tools/c20_bounded.py %s   # deterministic; the C20FAIL lines name capacity and key sequence' % tier,
               'outputs': outputs}, open(path, 'w'), indent=1)
    print('VIOLATION property=C20 replay=%s obligation="bounded:C20.keycache-transparent" %s' % (path, new_fails[0][:300]))
    print('c20: tier=%s sequences=%d nontrivial=%d violations=%d wall=%.1fs' % (tier, sequences, nontrivial, violations, time.time() - t0))
    sys.exit(1)
print('c20: tier=%s harnesses=%d sequences=%d nontrivial=%d violations=0 wall=%.1fs (bounded, exhaustive within bounds)' % (tier, compiled, sequences, nontrivial, time.time() - t0))
