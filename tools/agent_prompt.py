#!/usr/bin/env python3
# usage: agent_prompt.py <property id> <scratch worktree>  -- prints the brief given to a seeding sub-agent
import sys
pid, wt = sys.argv[1], sys.argv[2]
import json
prop = ''
for l in open('/verif/properties.jsonl'):
    d = json.loads(l)
    if d['id'] == pid:
        # the sub-agent gets the property text only: title, statement, quantifier, why tests cannot settle it
        prop = '%s: %s\n\n%s\n\nQuantified over: %s\n' % (d['id'], d.get('title',''), d['statement'], d['quantifier']['text'])
print(f"""You are helping to evaluate a verification effort for the Go library elastic/go-structform (streaming, visitor-based serialization between JSON, UBJSON, a CBOR subset, and Go values via reflection).

You have your own scratch git worktree of the library at {wt} (work ONLY there; never touch /repo or /verif; do not read anything under /verif). The sandbox has no network. Every shell call that runs go must start with:
  export GOFLAGS=-mod=mod GOPROXY=off GOSUMDB=off GOTOOLCHAIN=local
Run the existing test suite with:  cd {wt} && go test -vet=off -count=1 ./...
(Some files named contracts_verif.go were deliberately deleted from your worktree; ignore that, do not restore them, and never include them in a diff.)

Here is one semantic property that the library is supposed to satisfy:

-----
{prop}-----

YOUR TASK: produce TWO different, independent changes to the library's non-test Go source (call them variant a and variant b) each of which BREAKS this property while
  (1) the library still compiles (go build ./... and go vet-free test build),
  (2) the complete existing test suite still passes with the change applied,
  (3) the breakage needs something specific to manifest: an unusual input, a particular chunking/interleaving, a fault at a particular point, a multi-step sequence of operations, or two cooperating code sites that each look fine alone. It must NOT be something ordinary use would expose at once, and it should look like a realistic regression (a plausible refactoring slip, an off-by-one at a boundary, a dropped error check, a forgotten reset, a wrong width/marker choice for rare values, ...), not sabotage with an obvious marker.
For each variant also write a demonstration: a Go test file (package-internal or external, your choice) that FAILS with the change applied and PASSES on the unmodified worktree. Prefer different files/functions/mechanisms for a and b, and prefer different packages if the property spans several (json, ubjson, cborl, gotype, top-level adapters).

Deliverables, for each variant X in {{a, b}}, create directory {wt}/SEED/X/ containing:
  - patch.diff : output of `git diff` for the library source change only (relative to the worktree's HEAD; exclude the demo test, exclude contracts_verif.go files; it must apply with `git apply` at the repo root)
  - the demonstration test file (name it demo_<something>_test.go) plus a file DEMO_PATH.txt containing the repo-relative path where the test file must be placed to run (e.g. cborl/demo_x_test.go) and the exact `go test` command (with -run) that runs it
  - meta.json : {{"property": "{pid}", "variant": "X", "summary": one sentence on what was changed, "needs_to_manifest": what specific input/sequence/fault is needed, "files": [changed files], "verified": {{"suite_passes_with_change": true/false, "demo_fails_with_change": true/false, "demo_passes_without_change": true/false}}}}
Verify all three facts yourself by actually running the commands (apply change -> run full suite -> run demo; revert change -> run demo). When done, make sure the worktree's library files are back to unmodified (git checkout of the changed files) so that only SEED/ holds your results. Finish with a short report listing for each variant the changed function and the demo command. Do not write anything outside {wt}.
""")
