#!/usr/bin/env python3
# usage: seed_import.py <agent worktree> <seed id prefix>
# Confirms each seeded change (SEED/a, SEED/b) in a fresh scratch worktree of /repo HEAD:
# demo passes without the change; with the change the library builds, the full
# suite passes and the demo fails.  Confirmed seeds are copied to /verif/seeded/<id>/.
import json,os,subprocess,sys,shutil,re
wt, prefix = sys.argv[1], sys.argv[2]
env=dict(os.environ, GOFLAGS='-mod=mod', GOPROXY='off', GOSUMDB='off', GOTOOLCHAIN='local')
def sh(cmd, cwd, timeout=900):
    p=subprocess.run(cmd, shell=True, cwd=cwd, env=env, capture_output=True, text=True, timeout=timeout)
    return p.returncode, (p.stdout+p.stderr)[-3000:]
for var in ('a','b'):
    d=os.path.join(wt,'SEED',var)
    if not os.path.isdir(d): continue
    sid='%s%s'%(prefix,var)
    meta=json.load(open(os.path.join(d,'meta.json')))
    demo=[f for f in os.listdir(d) if f.endswith('_test.go')][0]
    dp=open(os.path.join(d,'DEMO_PATH.txt')).read()
    m=re.search(r'([\w./-]+_test\.go)', dp)
    demo_path=m.group(1)
    if demo_path.startswith('/'): demo_path=demo_path.split(wt+'/')[-1]
    pkg=os.path.dirname(demo_path)
    mrun=re.search(r"-run\s+'?\"?([^'\"\s]+)", dp)
    run=mrun.group(1) if mrun else 'TestDemo'
    scratch='/tmp/confirm_'+sid
    subprocess.run(['git','-C','/repo','worktree','remove','--force',scratch],capture_output=True)
    subprocess.run(['git','-C','/repo','worktree','add','-q','--detach',scratch,'HEAD'],check=True)
    res={}
    try:
        shutil.copy(os.path.join(d,demo), os.path.join(scratch,demo_path))
        rc,out=sh("go test -vet=off -count=1 -run '%s' ./%s"%(run,pkg), scratch); res['demo_passes_without_change']=(rc==0); res['demo_without_out']=out[-400:]
        rc,out=sh("git apply --exclude='*contracts_verif.go' %s"%os.path.join(d,'patch.diff'), scratch); res['patch_applies']=(rc==0); res['apply_out']=out[-400:]
        if rc==0:
            rc,out=sh("go build ./... && go vet -tags verif ./%s >/dev/null 2>&1; go build -tags verif ./..."%pkg, scratch); res['builds']=(rc==0)
            os.rename(os.path.join(scratch,demo_path), os.path.join(scratch,demo_path+'.off'))
            rc,out=sh("go test -vet=off -count=1 ./...", scratch); res['suite_passes_with_change']=(rc==0); res['suite_out']=out[-600:]
            os.rename(os.path.join(scratch,demo_path+'.off'), os.path.join(scratch,demo_path))
            rc,out=sh("go test -vet=off -count=1 -run '%s' ./%s"%(run,pkg), scratch); res['demo_fails_with_change']=(rc!=0); res['demo_with_out']=out[-800:]
    finally:
        subprocess.run(['git','-C','/repo','worktree','remove','--force',scratch],capture_output=True)
    ok=all(res.get(k) for k in ('demo_passes_without_change','patch_applies','builds','suite_passes_with_change','demo_fails_with_change'))
    print(sid, 'CONFIRMED' if ok else 'NOT-CONFIRMED', {k:v for k,v in res.items() if not k.endswith('_out')})
    if not ok:
        for k in res:
            if k.endswith('_out'): print('   ',k,res[k][-300:].replace('\n',' | '))
        continue
    out=os.path.join('/verif/seeded',sid); os.makedirs(out,exist_ok=True)
    shutil.copy(os.path.join(d,'patch.diff'), os.path.join(out,'patch.diff'))
    shutil.copy(os.path.join(d,demo), os.path.join(out,demo))
    meta.update({'id':sid,'demo_path':demo_path,'demo_run':run,
      'confirmed_by_me':{k:v for k,v in res.items() if not k.endswith('_out')},
      'what_i_ran':"scratch worktree of /repo HEAD (%s): go test -run '%s' ./%s (pass) ; git apply patch.diff ; go build ./... ; go test ./... (pass) ; go test -run '%s' ./%s (fail)"%(subprocess.run(['git','-C','/repo','log','--format=%h','-1'],capture_output=True,text=True).stdout.strip(),run,pkg,run,pkg)})
    json.dump(meta,open(os.path.join(out,'meta.json'),'w'),indent=1)
