#!/bin/bash
# usage: tools/mutcheck.sh <diff file> [prop...]
# Applies a diff to a scratch copy of /repo (outside /repo and /verif), runs the
# given property checks (default: the "# props:" header of the diff) against
# it and prints one line per property: KILLED / SURVIVED.  Scratch is removed.
set -u
diff=$(readlink -f "$1"); shift
props="$*"
[ -z "$props" ] && props=$(sed -n 's/^# props: *//p' "$diff")
root=$(cd "$(dirname "$0")/.." && pwd)
scratch=$(mktemp -d "${TMPDIR:-/var/tmp}/govc-mut.XXXXXX")
trap 'rm -rf "$scratch"' EXIT
rsync -a --exclude .git --exclude bench /repo/ "$scratch/repo/"
if ! (cd "$scratch/repo" && patch -p1 -s --no-backup-if-mismatch < "$diff"); then
  echo "PATCH-FAILED $diff"; exit 2
fi
rc=0
# MUTCHECK_FAST=1: first look only at the packages the diff touches (every
# violation found this way is also a violation of the full check); fall back to
# the full check when nothing is found
pkgs=$(grep '^+++ b/' "$diff" | sed 's|^+++ b/||' | xargs -n1 dirname | sort -u | sed 's|^\.$|go-structform|' | paste -sd'|')
for p in $props; do
  out=""
  if [ "$p" = "C20" ]; then
    # C20 is decided by the bounded stand-in (which also runs the govc obligations tagged C20)
    out=$(VERIF_REPO="$scratch/repo" VERIF_REPLAY_DIR="$scratch/replays" python3 "$root/tools/c20_bounded.py" quick 2>&1)
    if echo "$out" | grep -q '^VIOLATION'; then
      echo "KILLED   $p $(basename "$diff"): $(echo "$out" | grep -c '^VIOLATION') violation(s), first: \"$(echo "$out" | grep '^VIOLATION' | head -1 | sed 's/.*obligation=//' | tr -d '"' | cut -c1-200)\""
    else
      echo "SURVIVED $p $(basename "$diff")"; rc=1
    fi
    continue
  fi
  if [ -n "${MUTCHECK_FAST:-}" ] && [ -n "$pkgs" ]; then
    out=$(VERIF_REPO="$scratch/repo" VERIF_REPLAY_DIR="$scratch/replays" "$root/bin/govc" check -prop "$p" -no-evidence -fn "($pkgs)::" 2>&1)
    echo "$out" | grep -q '^VIOLATION' || out=""
    # a filter that selects no function of this property is not a finding
    echo "$out" | grep -q 'no obligations generated' && out=""
  fi
  [ -z "$out" ] && out=$(VERIF_REPO="$scratch/repo" VERIF_REPLAY_DIR="$scratch/replays" "$root/bin/govc" check -prop "$p" -no-evidence 2>&1)
  if echo "$out" | grep -q '^VIOLATION'; then
    echo "KILLED   $p $(basename "$diff"): $(echo "$out" | grep -c '^VIOLATION') violation(s), first: $(echo "$out" | grep '^VIOLATION' | head -1 | sed 's/.*obligation=//' | cut -c1-140)"
  else
    echo "SURVIVED $p $(basename "$diff")"; rc=1
  fi
done
exit $rc
