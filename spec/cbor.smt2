; CBOR (RFC 7049 section 2, appendix B) -- written from the RFC, not from the library.
; A data item head: initial byte ib = mt*32 + ai, followed by argLen(ai) argument bytes (big endian).
(define-fun cborArgLen ((ai Int)) Int
  (ite (< ai 24) 0 (ite (= ai 24) 1 (ite (= ai 25) 2 (ite (= ai 26) 4 (ite (= ai 27) 8 (- 1)))))))
(define-fun be2 ((a Int) (b Int)) Int (+ (* 256 a) b))
(define-fun be4 ((a Int) (b Int) (c Int) (d Int)) Int (+ (* 16777216 a) (* 65536 b) (* 256 c) d))
(define-fun be8 ((a Int) (b Int) (c Int) (d Int) (e Int) (f Int) (g Int) (h Int)) Int
  (+ (* 4294967296 (be4 a b c d)) (be4 e f g h)))
; value of the argument of a head whose bytes are b0..b8
(define-fun cborArg ((b0 Int) (b1 Int) (b2 Int) (b3 Int) (b4 Int) (b5 Int) (b6 Int) (b7 Int) (b8 Int)) Int
  (let ((ai (mod b0 32)))
    (ite (< ai 24) ai
    (ite (= ai 24) b1
    (ite (= ai 25) (be2 b1 b2)
    (ite (= ai 26) (be4 b1 b2 b3 b4)
    (ite (= ai 27) (be8 b1 b2 b3 b4 b5 b6 b7 b8) (- 1))))))))
; "the n bytes b0.. are a (not necessarily minimal) head of major type mt32 (= mt*32) with argument v"
(define-fun cborHeadIs ((n Int) (b0 Int) (b1 Int) (b2 Int) (b3 Int) (b4 Int) (b5 Int) (b6 Int) (b7 Int) (b8 Int) (mt32 Int) (v Int)) Bool
  (and (<= 0 b0 255) (=> (> n 1) (<= 0 b1 255)) (=> (> n 2) (<= 0 b2 255)) (=> (> n 3) (<= 0 b3 255)) (=> (> n 4) (<= 0 b4 255))
       (=> (> n 5) (<= 0 b5 255)) (=> (> n 6) (<= 0 b6 255)) (=> (> n 7) (<= 0 b7 255)) (=> (> n 8) (<= 0 b8 255))
       (= (* 32 (div b0 32)) mt32)
       (>= (cborArgLen (mod b0 32)) 0)
       (= n (+ 1 (cborArgLen (mod b0 32))))
       (= (cborArg b0 b1 b2 b3 b4 b5 b6 b7 b8) v)))
; numeric value denoted by an integer head: major 0 -> arg, major 1 (0x20) -> -1-arg
(define-fun cborIntValue ((mt32 Int) (arg Int)) Int (ite (= mt32 0) arg (- (- 1) arg)))
; "the n bytes are one integer head (major type 0 or 1, any argument width) denoting the mathematical integer v"
(define-fun cborIntHead ((n Int) (b0 Int) (b1 Int) (b2 Int) (b3 Int) (b4 Int) (b5 Int) (b6 Int) (b7 Int) (b8 Int) (v Int)) Bool
  (let ((mt32 (* 32 (div b0 32))) (arg (cborArg b0 b1 b2 b3 b4 b5 b6 b7 b8)))
    (and (or (= mt32 0) (= mt32 32))
         (cborHeadIs n b0 b1 b2 b3 b4 b5 b6 b7 b8 mt32 arg)
         (= (cborIntValue mt32 arg) v))))
; head length implied by the initial byte
(define-fun cborHeadLen ((b0 Int)) Int (+ 1 (cborArgLen (mod b0 32))))
; --- parser state helpers (state codes are the library's; the predicates are only used to phrase
; representation invariants and progress measures, never as the oracle for values)
(define-fun cborWidth ((minor Int)) Int (ite (= minor 24) 1 (ite (= minor 25) 2 (ite (= minor 26) 4 (ite (= minor 27) 8 0)))))
(define-fun cborStartBit ((m Int)) Int (mod (div m 4) 2))
(define-fun cborDefContainer ((m Int)) Bool (or (= m 128) (= m 160)))
; recursion measure of the close cascade
(define-fun cborOnValueMeasure ((m Int) (depth Int)) Int (ite (cborDefContainer m) (+ (* 3 depth) 3) 0))
; value of a big-endian argument of w bytes given its bytes (unused ones ignored)
(define-fun cborBE ((w Int) (b0 Int) (b1 Int) (b2 Int) (b3 Int) (b4 Int) (b5 Int) (b6 Int) (b7 Int)) Int
  (ite (= w 1) b0 (ite (= w 2) (be2 b0 b1) (ite (= w 4) (be4 b0 b1 b2 b3) (be8 b0 b1 b2 b3 b4 b5 b6 b7)))))
; event kinds (see ifaces.go): integer events
(define-fun evIsInt ((k Int)) Bool (and (<= 9 k) (<= k 19)))
; representation invariant of one parser state: the argument-width sub-states are only entered for
; additional information 24..27 (every other value must have been refused when the head was read)
(define-fun cborStateInv ((ma Int) (mi Int)) Bool (and (=> (or (= ma 0) (= ma 32) (= ma 3)) (and (<= 24 mi) (<= mi 27))) (=> (or (= ma 64) (= ma 68)) (or (= mi 1) (= mi 2)))))
; states in which bytes of a partially received token may sit in the collect buffer
(define-fun cborCollecting ((ma Int) (mi Int)) Bool
  (or (and (or (= ma 0) (= ma 32) (= ma 3)) (<= 25 mi) (<= mi 27)) (= ma 250) (= ma 251) (= ma 96) (= ma 168)))
; number of bytes the token in progress needs from the collect buffer: the buffer always holds fewer
(define-fun cborNeed ((ma Int) (mi Int) (lc Int)) Int
  (ite (or (= ma 0) (= ma 32) (= ma 3)) (cborWidth mi) (ite (= ma 250) 4 (ite (= ma 251) 8 (ite (or (= ma 96) (= ma 168)) lc 1)))))
; RFC 7049: initial bytes that the supported subset must refuse at a value position
; (tags, half floats, indefinite strings, reserved additional information 28..30, unassigned
;  simple values, an indefinite-length integer, a break outside an indefinite container)
(define-fun cborHeadRefused ((h Int)) Bool
  (let ((mt (div h 32)) (ai (mod h 32)))
    (or (= mt 6) (and (<= 28 ai) (<= ai 30))
        (and (or (= mt 2) (= mt 3) (= mt 0) (= mt 1)) (= ai 31))
        (and (= mt 7) (not (or (= ai 20) (= ai 21) (= ai 22) (= ai 23) (= ai 26) (= ai 27)))))))
; which state may sit directly below state x on the parser's stack (structure of the state stack)
(define-fun cborContOrTop ((m Int)) Bool (or (= m 128) (= m 160) (= m 129) (= m 161) (= m 2)))
; states of a value in progress (they sit at a value position: above a container or at top level)
(define-fun cborValueState ((m Int)) Bool
  (or (= m 0) (= m 32) (= m 64) (= m 68) (= m 96) (= m 100) (= m 250) (= m 251) (= m 128) (= m 160) (= m 129) (= m 161)))
(define-fun cborBelowOK ((x Int) (y Int)) Bool
  (ite (= x 132) (= y 128) (ite (= x 133) (= y 129) (ite (= x 164) (= y 160) (ite (= x 165) (= y 161)
  (ite (or (= x 169) (= x 168) (= x 172)) (or (= y 160) (= y 161))
  (ite (= x 3) (or (= y 68) (= y 100) (= y 132) (= y 164) (= y 172))
  (ite (cborValueState x) (cborContOrTop y) true))))))))
; length facts per state: payload states have a positive remaining length, definite start states a non-negative one
(define-fun cborLenOK ((ma Int) (lc Int)) Bool
  (and (=> (or (= ma 96) (= ma 168) (= ma 64)) (> lc 0))
       (=> (or (= ma 68) (= ma 100) (= ma 172) (= ma 132) (= ma 164)) (>= lc 0))))
