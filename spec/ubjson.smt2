; UBJSON draft 12 (ubjson.org "Type reference") -- written from the specification, not from the library.
; Value markers: Z=90 null, N=78 no-op, T=84 true, F=70 false, i=105 int8, U=85 uint8, I=73 int16,
; l=108 int32, L=76 int64, d=100 float32, D=68 float64, H=72 high-precision number, C=67 char, S=83 string,
; [=91 ]=93 {=123 }=125, #=35 count, $=36 type.  All numeric payloads are big endian; signed types are
; two's complement.
(define-fun ubjPayloadLen ((t Int)) Int
  (ite (or (= t 105) (= t 85) (= t 67)) 1
  (ite (= t 73) 2
  (ite (or (= t 108) (= t 100)) 4
  (ite (or (= t 76) (= t 68)) 8
  (ite (or (= t 90) (= t 78) (= t 84) (= t 70)) 0 (- 1)))))))
(define-fun ubjSigned ((w Int) (u Int)) Int
  (ite (= w 1) (ite (>= u 128) (- u 256) u)
  (ite (= w 2) (ite (>= u 32768) (- u 65536) u)
  (ite (= w 4) (ite (>= u 2147483648) (- u 4294967296) u)
               (ite (>= u 9223372036854775808) (- u 18446744073709551616) u)))))
; unsigned big-endian number in the first w of 8 bytes
(define-fun ubjBE ((w Int) (b0 Int) (b1 Int) (b2 Int) (b3 Int) (b4 Int) (b5 Int) (b6 Int) (b7 Int)) Int
  (ite (= w 1) b0 (ite (= w 2) (be2 b0 b1) (ite (= w 4) (be4 b0 b1 b2 b3) (be8 b0 b1 b2 b3 b4 b5 b6 b7)))))
; integer denoted by a payload of integer type t (i U I l L)
(define-fun ubjIntPayload ((t Int) (b0 Int) (b1 Int) (b2 Int) (b3 Int) (b4 Int) (b5 Int) (b6 Int) (b7 Int)) Int
  (ite (= t 85) b0 (ubjSigned (ubjPayloadLen t) (ubjBE (ubjPayloadLen t) b0 b1 b2 b3 b4 b5 b6 b7))))
(define-fun ubjIsIntType ((t Int)) Bool (or (= t 105) (= t 85) (= t 73) (= t 108) (= t 76)))
(define-fun ubjBytesOK ((n Int) (b0 Int) (b1 Int) (b2 Int) (b3 Int) (b4 Int) (b5 Int) (b6 Int) (b7 Int) (b8 Int)) Bool
  (and (<= 0 b0 255) (=> (> n 1) (<= 0 b1 255)) (=> (> n 2) (<= 0 b2 255)) (=> (> n 3) (<= 0 b3 255)) (=> (> n 4) (<= 0 b4 255))
       (=> (> n 5) (<= 0 b5 255)) (=> (> n 6) (<= 0 b6 255)) (=> (> n 7) (<= 0 b7 255)) (=> (> n 8) (<= 0 b8 255))))
; "the n bytes b0.. are the payload (no marker) of integer type t denoting v"
(define-fun ubjIntBody ((n Int) (b0 Int) (b1 Int) (b2 Int) (b3 Int) (b4 Int) (b5 Int) (b6 Int) (b7 Int) (b8 Int) (t Int) (v Int)) Bool
  (and (ubjIsIntType t) (= n (ubjPayloadLen t)) (ubjBytesOK n b0 b1 b2 b3 b4 b5 b6 b7 b8)
       (= (ubjIntPayload t b0 b1 b2 b3 b4 b5 b6 b7) v)))
; "the n bytes b0.. are one integer item (marker + payload, any integer type) denoting v"
(define-fun ubjIntItem ((n Int) (b0 Int) (b1 Int) (b2 Int) (b3 Int) (b4 Int) (b5 Int) (b6 Int) (b7 Int) (b8 Int) (v Int)) Bool
  (and (ubjIsIntType b0) (= n (+ 1 (ubjPayloadLen b0))) (ubjBytesOK n b0 b1 b2 b3 b4 b5 b6 b7 b8)
       (= (ubjIntPayload b0 b1 b2 b3 b4 b5 b6 b7 b8) v)))
; length of the integer item starting with marker b0
(define-fun ubjItemLen ((b0 Int)) Int (+ 1 (ubjPayloadLen b0)))
; integer item or payload, depending on whether the marker is written (typed containers elide it)
(define-fun ubjInt ((marker Bool) (n Int) (b0 Int) (b1 Int) (b2 Int) (b3 Int) (b4 Int) (b5 Int) (b6 Int) (b7 Int) (b8 Int) (t Int) (v Int)) Bool
  (ite marker (and (= b0 t) (ubjIntItem n b0 b1 b2 b3 b4 b5 b6 b7 b8 v)) (ubjIntBody n b0 b1 b2 b3 b4 b5 b6 b7 b8 t v)))
; the type marker t can represent the integer v
(define-fun ubjFits ((t Int) (v Int)) Bool
  (ite (= t 105) (and (<= (- 128) v) (<= v 127))
  (ite (= t 85) (and (<= 0 v) (<= v 255))
  (ite (= t 73) (and (<= (- 32768) v) (<= v 32767))
  (ite (= t 108) (and (<= (- 2147483648) v) (<= v 2147483647))
  (ite (= t 76) (and (<= (- 9223372036854775808) v) (<= v 9223372036854775807))
  (= t 72)))))))
; --- parser state helpers (state codes are the library's; only used in invariants / measures)
(define-fun ubjFixedWidth ((step Int)) Int
  (ite (or (= step 5) (= step 6) (= step 12)) 1 (ite (= step 7) 2 (ite (or (= step 8) (= step 10)) 4 (ite (or (= step 9) (= step 11)) 8 0)))))
