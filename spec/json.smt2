; JSON (RFC 8259) -- written from the RFC.
; value of a sequence of n (1..20) ASCII decimal digits b0..b19 (Horner), -1 if some byte is not a digit
(define-fun jsonDigit ((c Int)) Int (- c 48))
(define-fun jsonIsDigit ((c Int)) Bool (and (<= 48 c) (<= c 57)))
(define-fun jsonDec20 ((n Int) (b0 Int) (b1 Int) (b2 Int) (b3 Int) (b4 Int) (b5 Int) (b6 Int) (b7 Int) (b8 Int) (b9 Int)
                       (b10 Int) (b11 Int) (b12 Int) (b13 Int) (b14 Int) (b15 Int) (b16 Int) (b17 Int) (b18 Int) (b19 Int)) Int
  (let ((h1 (jsonDigit b0)))
  (let ((h2 (+ (* 10 h1) (jsonDigit b1))))
  (let ((h3 (+ (* 10 h2) (jsonDigit b2))))
  (let ((h4 (+ (* 10 h3) (jsonDigit b3))))
  (let ((h5 (+ (* 10 h4) (jsonDigit b4))))
  (let ((h6 (+ (* 10 h5) (jsonDigit b5))))
  (let ((h7 (+ (* 10 h6) (jsonDigit b6))))
  (let ((h8 (+ (* 10 h7) (jsonDigit b7))))
  (let ((h9 (+ (* 10 h8) (jsonDigit b8))))
  (let ((h10 (+ (* 10 h9) (jsonDigit b9))))
  (let ((h11 (+ (* 10 h10) (jsonDigit b10))))
  (let ((h12 (+ (* 10 h11) (jsonDigit b11))))
  (let ((h13 (+ (* 10 h12) (jsonDigit b12))))
  (let ((h14 (+ (* 10 h13) (jsonDigit b13))))
  (let ((h15 (+ (* 10 h14) (jsonDigit b14))))
  (let ((h16 (+ (* 10 h15) (jsonDigit b15))))
  (let ((h17 (+ (* 10 h16) (jsonDigit b16))))
  (let ((h18 (+ (* 10 h17) (jsonDigit b17))))
  (let ((h19 (+ (* 10 h18) (jsonDigit b18))))
  (let ((h20 (+ (* 10 h19) (jsonDigit b19))))
   (ite (= n 1) h1 (ite (= n 2) h2 (ite (= n 3) h3 (ite (= n 4) h4 (ite (= n 5) h5 (ite (= n 6) h6 (ite (= n 7) h7 (ite (= n 8) h8 (ite (= n 9) h9 (ite (= n 10) h10
   (ite (= n 11) h11 (ite (= n 12) h12 (ite (= n 13) h13 (ite (= n 14) h14 (ite (= n 15) h15 (ite (= n 16) h16 (ite (= n 17) h17 (ite (= n 18) h18 (ite (= n 19) h19 h20))))))))))))))))))))))))))))))))))))))))
(define-fun jsonAllDigits20 ((n Int) (b0 Int) (b1 Int) (b2 Int) (b3 Int) (b4 Int) (b5 Int) (b6 Int) (b7 Int) (b8 Int) (b9 Int)
                       (b10 Int) (b11 Int) (b12 Int) (b13 Int) (b14 Int) (b15 Int) (b16 Int) (b17 Int) (b18 Int) (b19 Int)) Bool
  (and (<= 1 n) (<= n 20) (jsonIsDigit b0) (=> (> n 1) (jsonIsDigit b1)) (=> (> n 2) (jsonIsDigit b2)) (=> (> n 3) (jsonIsDigit b3)) (=> (> n 4) (jsonIsDigit b4))
       (=> (> n 5) (jsonIsDigit b5)) (=> (> n 6) (jsonIsDigit b6)) (=> (> n 7) (jsonIsDigit b7)) (=> (> n 8) (jsonIsDigit b8)) (=> (> n 9) (jsonIsDigit b9))
       (=> (> n 10) (jsonIsDigit b10)) (=> (> n 11) (jsonIsDigit b11)) (=> (> n 12) (jsonIsDigit b12)) (=> (> n 13) (jsonIsDigit b13)) (=> (> n 14) (jsonIsDigit b14))
       (=> (> n 15) (jsonIsDigit b15)) (=> (> n 16) (jsonIsDigit b16)) (=> (> n 17) (jsonIsDigit b17)) (=> (> n 18) (jsonIsDigit b18)) (=> (> n 19) (jsonIsDigit b19))))
; a byte that may appear raw inside the JSON text written by the encoder: no control characters,
; and with HTML escaping none of < > &
(define-fun jsonOutOK ((c Int) (html Bool)) Bool (and (>= c 32) (=> html (not (or (= c 60) (= c 62) (= c 38))))))
; decimal value of the n digits at addresses a..a+n-1 of heap h (left to right, Horner);
; recursive, given by its unfolding axioms
(declare-fun jsonHorner ((Array Int Int) Int Int) Int)
(assert (forall ((h (Array Int Int)) (a Int) (n Int)) (! (=> (<= n 0) (= (jsonHorner h a n) 0)) :pattern ((jsonHorner h a n)))))
(assert (forall ((h (Array Int Int)) (a Int) (n Int)) (! (=> (> n 0) (= (jsonHorner h a n) (+ (* 10 (jsonHorner h a (- n 1))) (- (select h (adr a (- n 1))) 48)))) :pattern ((jsonHorner h a n)))))
(define-fun jsonAllDigits ((h (Array Int Int)) (a Int) (n Int)) Bool
  (forall ((k Int)) (! (=> (and (<= 0 k) (< k n)) (jsonIsDigit (select h (adr a k)))) :pattern ((select h (adr a k))))))
; RFC 8259 structural classes of the next non-space byte
(define-fun jsonIsWS ((c Int)) Bool (or (= c 32) (= c 9) (= c 10) (= c 13)))
; bytes skipped as white space by the library (unicode.IsSpace on a byte): a superset of RFC 8259 ws
(define-fun jsonGoSpace ((c Int)) Bool (or (= c 9) (= c 10) (= c 11) (= c 12) (= c 13) (= c 32) (= c 133) (= c 160)))
; representation invariant: the countdown of the literal in progress
(define-fun jsonRequiredOK ((st Int) (req Int)) Bool
  (and (=> (or (= st 11) (= st 12)) (and (<= 1 req) (<= req 3))) (=> (= st 13) (and (<= 1 req) (<= req 4)))))
(define-fun jsonStopChar ((c Int)) Bool (or (= c 32) (= c 9) (= c 12) (= c 10) (= c 13) (= c 44) (= c 93) (= c 125)))
(define-fun jsonNumStart ((c Int)) Bool (or (= c 45) (= c 43) (= c 46) (jsonIsDigit c)))
; states that a step may leave without consuming input (they only look at the next byte)
(define-fun jsonRank ((st Int)) Int (ite (or (= st 2) (= st 5) (= st 7) (= st 15)) 1 0))
; states that are saved on the state stack: always the state to return to after a value
(define-fun jsonRetState ((st Int)) Bool (or (= st 1) (= st 10) (= st 4)))

; ---- string unescaping (RFC 8259 section 7, RFC 3629 for UTF-8, RFC 2781 for surrogate pairs) ----
; value of one hexadecimal digit, -1 if the byte is none
(define-fun jsonHexD ((b Int)) Int
  (ite (and (<= 48 b) (<= b 57)) (- b 48)
  (ite (and (<= 97 b) (<= b 102)) (- b 87)
  (ite (and (<= 65 b) (<= b 70)) (- b 55) (- 1)))))
; code unit of \uXXXX, -1 if one of the four bytes is not a hex digit
(define-fun jsonHex4 ((b0 Int) (b1 Int) (b2 Int) (b3 Int)) Int
  (ite (or (< (jsonHexD b0) 0) (< (jsonHexD b1) 0) (< (jsonHexD b2) 0) (< (jsonHexD b3) 0)) (- 1)
       (+ (* 4096 (jsonHexD b0)) (* 256 (jsonHexD b1)) (* 16 (jsonHexD b2)) (jsonHexD b3))))
; the character a two-byte escape \e stands for, -1 if \e is not such an escape
; (the parser also accepts \' -- never present in an RFC 8259 text)
(define-fun jsonSimpleEsc ((e Int)) Int
  (ite (or (= e 34) (= e 92) (= e 47) (= e 39)) e
  (ite (= e 98) 8 (ite (= e 102) 12 (ite (= e 110) 10 (ite (= e 114) 13 (ite (= e 116) 9 (- 1))))))))
(define-fun jsonIsSurr ((r Int)) Bool (and (<= 55296 r) (< r 57344)))
(define-fun jsonIsPair ((hi Int) (lo Int)) Bool (and (<= 55296 hi) (< hi 56320) (<= 56320 lo) (< lo 57344)))
(define-fun jsonPair ((hi Int) (lo Int)) Int (+ 65536 (* 1024 (- hi 55296)) (- lo 56320)))
; UTF-8 of a Unicode scalar value r: length and k-th byte
(define-fun jsonRuneLen ((r Int)) Int (ite (< r 128) 1 (ite (< r 2048) 2 (ite (< r 65536) 3 4))))
(define-fun jsonUtf8ByteDef ((r Int) (k Int)) Int
  (ite (< r 128) r
  (ite (< r 2048) (ite (= k 0) (+ 192 (div r 64)) (+ 128 (mod r 64)))
  (ite (< r 65536) (ite (= k 0) (+ 224 (div r 4096)) (ite (= k 1) (+ 128 (mod (div r 64) 64)) (+ 128 (mod r 64))))
       (ite (= k 0) (+ 240 (div r 262144)) (ite (= k 1) (+ 128 (mod (div r 4096) 64)) (ite (= k 2) (+ 128 (mod (div r 64) 64)) (+ 128 (mod r 64)))))))))
; the same function behind an uninterpreted symbol with its definition as a triggered axiom: the
; obligations that compare the bytes utf8.EncodeRune wrote (assumed contract, stated with this symbol)
; with the bytes the RFC demands then need equality of the code points only, not div/mod reasoning
(declare-fun jsonUtf8Byte (Int Int) Int)
; The definitional axiom  forall r k. jsonUtf8Byte(r,k) = jsonUtf8ByteDef(r,k)  is deliberately NOT
; asserted: no obligation on /repo code needs the inside of the definition (the library never encodes
; UTF-8 itself, it calls utf8.EncodeRune, whose assumed contract is "writes jsonUtf8Byte(r,0..n-1)"),
; and instantiating it floods the arithmetic solver with nested div/mod terms (measured: 14-33 s instead
; of < 1 s for the surrogate-pair clause of unquote).  jsonUtf8ByteDef documents what the symbol means.
;(assert (forall ((r Int) (k Int)) (! (= (jsonUtf8Byte r k) (jsonUtf8ByteDef r k)) :pattern ((jsonUtf8Byte r k)))))
; ground / linear instances of the definition that obligations do need: U+FFFD is EF BF BD, ASCII is itself
(assert (and (= (jsonUtf8Byte 65533 0) 239) (= (jsonUtf8Byte 65533 1) 191) (= (jsonUtf8Byte 65533 2) 189)))
(assert (forall ((r Int)) (! (=> (and (<= 0 r) (< r 128)) (= (jsonUtf8Byte r 0) r)) :pattern ((jsonUtf8Byte r 0)))))
