package gotype_test

// Bounded stand-in for property C20, end to end through the public API only:
// an Unfolder with EnableKeyCache(n) must produce the same maps as one without
// a cache, for map[string]interface{}, typed maps, reflection-handled maps and
// interface{} targets, when every key arrives by reference in one re-used buffer
// that is overwritten right after the event, over several documents processed
// by the same Unfolder.

import (
	"fmt"
	"os"
	"reflect"
	"strconv"
	"testing"

	"github.com/elastic/go-structform"
	"github.com/elastic/go-structform/gotype"
)

var c20uKeys = []string{"", "a", "b", "ab"}

type c20uS struct{ V int }

func c20uEnvInt(name string, def int) int {
	if v, err := strconv.Atoi(os.Getenv(name)); err == nil {
		return v
	}
	return def
}

// feed one document (an object with the given keys, values = position) into u
func c20uDoc(u *gotype.Unfolder, buf []byte, keys []int, structVals bool) error {
	if err := u.OnObjectStart(-1, structform.AnyType); err != nil {
		return err
	}
	for pos, k := range keys {
		n := copy(buf, c20uKeys[k])
		if err := u.OnKeyRef(buf[:n]); err != nil {
			return err
		}
		for i := range buf {
			buf[i] = 'X'
		}
		if structVals {
			if err := u.OnObjectStart(-1, structform.AnyType); err != nil {
				return err
			}
			if err := u.OnKey("v"); err != nil {
				return err
			}
			if err := u.OnInt(pos); err != nil {
				return err
			}
			if err := u.OnObjectFinished(); err != nil {
				return err
			}
		} else if err := u.OnInt(pos); err != nil {
			return err
		}
	}
	return u.OnObjectFinished()
}

func c20uRun(cap int, kind int, docs [][]int) (res []interface{}, fail string) {
	defer func() {
		if r := recover(); r != nil {
			fail = fmt.Sprintf("panic: %v", r)
		}
	}()
	u, err := gotype.NewUnfolder(nil)
	if err != nil {
		return nil, err.Error()
	}
	if cap >= 0 {
		u.EnableKeyCache(cap)
	}
	buf := make([]byte, 4)
	var targets []interface{}
	for _, d := range docs {
		var to interface{}
		switch kind {
		case 0:
			to = &map[string]interface{}{}
		case 1:
			to = &map[string]int{}
		case 2:
			to = &map[string]c20uS{}
		default:
			var x interface{}
			to = &x
		}
		if err := u.SetTarget(to); err != nil {
			return nil, err.Error()
		}
		if err := c20uDoc(u, buf, d, kind == 2); err != nil {
			return nil, "error: " + err.Error()
		}
		targets = append(targets, to)
	}
	// render only at the end: earlier targets must have survived later documents
	for _, to := range targets {
		res = append(res, fmt.Sprintf("%v", reflect.ValueOf(to).Elem().Interface()))
	}
	return res, ""
}

func TestVerifC20Unfold(t *testing.T) {
	maxCap := c20uEnvInt("VERIF_C20_MAXCAP", 4)
	maxLen := c20uEnvInt("VERIF_C20_E2E_MAXLEN", 5)
	var runs, failures, nontrivial int
	var sample string
	for l := 1; l <= maxLen; l++ {
		seq := make([]int, l)
		for {
			for split := 0; split <= l; split++ {
				if split != 0 && split != l/2 {
					continue
				}
				var docs [][]int
				if split == 0 {
					docs = [][]int{seq}
				} else {
					docs = [][]int{seq[:split], seq[split:]}
				}
				for kind := 0; kind < 4; kind++ {
					want, msg := c20uRun(-1, kind, docs)
					if msg != "" {
						continue // not a matter of the cache: the reference itself refuses
					}
					for cap := 0; cap <= maxCap; cap++ {
						runs++
						distinct := map[int]bool{}
						for _, k := range seq {
							distinct[k] = true
						}
						if cap > 0 && len(distinct) > cap {
							nontrivial++
							if sample == "" {
								sample = fmt.Sprintf("cap=%d kind=%d docs=%v", cap, kind, docs)
							}
						}
						got, msg := c20uRun(cap, kind, docs)
						if msg == "" && !reflect.DeepEqual(got, want) {
							msg = fmt.Sprintf("with cache %v, without %v", got, want)
						}
						if msg != "" {
							failures++
							if failures <= 5 {
								fmt.Printf("C20FAIL harness=unfold capacity=%d target-kind=%d docs(key indices into %q)=%v : %s\n", cap, kind, c20uKeys, docs, msg)
							}
						}
					}
				}
			}
			i := l - 1
			for i >= 0 {
				seq[i]++
				if seq[i] < len(c20uKeys) {
					break
				}
				seq[i] = 0
				i--
			}
			if i < 0 {
				break
			}
		}
	}
	fmt.Printf("C20STATS harness=unfold maxcap=%d maxlen=%d keys=%d sequences=%d gets=%d nontrivial=%d failures=%d sample=%q\n",
		maxCap, maxLen, len(c20uKeys), runs, 0, nontrivial, failures, sample)
	if failures > 0 {
		t.Fatalf("%d failing runs", failures)
	}
}
