package gotype

// Bounded stand-in for property C20 (labelled bounded, never counted as proved).
// Injected into package gotype with `go test -overlay`; nothing is written to /repo.
// Uses only symbolCache.init and symbolCache.get, so refactorings behind them do
// not break the harness.
//
// Exhaustive over: capacities {-1,0,1,...,maxCap} x every sequence of at most
// maxLen lookups over the key alphabet below, every key delivered in ONE
// re-used buffer that is overwritten after each call.

import (
	"fmt"
	"os"
	"strconv"
	"testing"
)

var c20Keys = []string{"", "a", "b", "ab", "ba"}

func c20EnvInt(name string, def int) int {
	if v, err := strconv.Atoi(os.Getenv(name)); err == nil {
		return v
	}
	return def
}

// reference LRU over key indices: only used to classify sequences (hit, miss,
// eviction, re-insertion after eviction) for the coverage counters.
type c20Ref struct {
	cap   int
	order []int
	gone  map[int]bool
}

func (r *c20Ref) touch(k int) (hit, evict, reinsert bool) {
	if r.cap <= 0 {
		return
	}
	for i, x := range r.order {
		if x == k {
			r.order = append(append(r.order[:i:i], r.order[i+1:]...), k)
			return true, false, false
		}
	}
	if len(r.order) == r.cap {
		r.gone[r.order[0]] = true
		r.order = r.order[1:]
		evict = true
	}
	reinsert = r.gone[k]
	r.order = append(r.order, k)
	return
}

func c20Run(cap int, seq []int) (fail string) {
	defer func() {
		if r := recover(); r != nil {
			fail = fmt.Sprintf("panic: %v", r)
		}
	}()
	var c symbolCache
	c.init(cap)
	buf := make([]byte, 4)
	results := make([]string, 0, len(seq))
	for step, k := range seq {
		key := c20Keys[k]
		n := copy(buf, key)
		got := c.get(buf[:n])
		if got != key {
			return fmt.Sprintf("step %d: get(%q) = %q", step, key, got)
		}
		results = append(results, got)
		// the producer re-uses its buffer
		for i := range buf {
			buf[i] = 'X'
		}
		for j, r := range results {
			if r != c20Keys[seq[j]] {
				return fmt.Sprintf("step %d: the string returned at step %d for key %q reads %q after the input buffer was overwritten", step, j, c20Keys[seq[j]], r)
			}
		}
	}
	return ""
}

func TestVerifC20SymbolCache(t *testing.T) {
	maxCap := c20EnvInt("VERIF_C20_MAXCAP", 4)
	maxLen := c20EnvInt("VERIF_C20_MAXLEN", 6)
	var sequences, gets, nontrivial, failures int
	var sample string
	for cap := -1; cap <= maxCap; cap++ {
		for l := 1; l <= maxLen; l++ {
			seq := make([]int, l)
			for {
				sequences++
				gets += l
				ref := &c20Ref{cap: cap, gone: map[int]bool{}}
				var sawHit, sawReinsert bool
				for _, k := range seq {
					h, _, re := ref.touch(k)
					sawHit = sawHit || h
					sawReinsert = sawReinsert || re
				}
				if sawHit && sawReinsert {
					nontrivial++
					if sample == "" {
						sample = fmt.Sprintf("cap=%d seq=%v", cap, seq)
					}
				}
				if msg := c20Run(cap, seq); msg != "" {
					failures++
					if failures <= 5 {
						ks := make([]string, len(seq))
						for i, k := range seq {
							ks[i] = c20Keys[k]
						}
						fmt.Printf("C20FAIL harness=symbolCache capacity=%d keys=%q : %s\n", cap, ks, msg)
					}
				}
				// next sequence
				i := l - 1
				for i >= 0 {
					seq[i]++
					if seq[i] < len(c20Keys) {
						break
					}
					seq[i] = 0
					i--
				}
				if i < 0 {
					break
				}
			}
		}
	}
	fmt.Printf("C20STATS harness=symbolCache maxcap=%d maxlen=%d keys=%d sequences=%d gets=%d nontrivial=%d failures=%d sample=%q\n",
		maxCap, maxLen, len(c20Keys), sequences, gets, nontrivial, failures, sample)
	if failures > 0 {
		t.Fatalf("%d failing sequences", failures)
	}
}
